from pyasn1.type import univ, namedtype, tag, char
from pyasn1.codec.der import encoder as denc
from pyasn1 import error
def t(label, f):
    try: print(label, '->', repr(f())[:100])
    except Exception as e: print(label, '-> EXC', type(e).__name__, str(e)[:80])
so=univ.SequenceOf(componentType=univ.Integer())
t('len schema', lambda: len(so)); t('count schema', lambda: so.count(1)); t('index schema', lambda: so.index(1))
t('iter schema', lambda: list(so)); t('isValue', lambda: so.isValue)
so.extend([3,1,2]); t('reverse', lambda: so.reverse()); t('sort', lambda: (so.sort(), list(so))[1]); t('sort key', lambda: (so.sort(key=lambda x:-int(x)), [int(x) for x in so])[1])
t('so[5]=9 (gap)', lambda: (so.__setitem__(5,9), len(so), so.isValue)[1:]); t('encode gap', lambda: denc.encode(so).hex())
t('iter after gap (instantiates?)', lambda: ([x.isValue for x in so], so.isValue))
so2=univ.SequenceOf(componentType=univ.Integer()); so2.extend([1,2,3])
t('so2[10] read', lambda: so2[10]); t('len after read', lambda: len(so2)); t('isValue', lambda: so2.isValue)
t('so2[-1]', lambda: int(so2[-1])); t('so2[1:2]', lambda: so2[1:2]); t('slice assign', lambda: (so2.__setitem__(slice(0,2),[7,8]), [int(x) if x.isValue else None for x in so2])[1])
t('index(3)', lambda: so2.index(3)); t('count(3)', lambda: so2.count(3)); t('3 in so2', lambda: 3 in so2)
t('clear', lambda: (so2.clear(), len(so2), so2.isValue)[1:]); t('reset', lambda: (so2.reset(), len(so2), so2.isValue)[1:])
class S(univ.Sequence):
    componentType=namedtype.NamedTypes(namedtype.NamedType('a', univ.Integer()), namedtype.OptionalNamedType('b', univ.OctetString()), namedtype.DefaultedNamedType('c', univ.Integer(7)))
s=S(); t('len fresh', lambda: len(s)); t('s[zz]', lambda: s['zz']); t('s[5]', lambda: s[5]); t('s[3]', lambda: s[3]); t('set s[3]', lambda: s.setComponentByPosition(3, 1))
s['a']=1; t('len', lambda: len(s)); t('keys', lambda: list(s.keys())); t('items', lambda: [(k, v.isValue) for k,v in s.items()]); t('enc', lambda: denc.encode(s).hex())
t('reset', lambda: (s.reset(), s.isValue)[1]); t('len after reset', lambda: len(s)); t('read a after reset', lambda: s['a']); t('pp after reset', lambda: s.prettyPrint())
c=univ.Choice(componentType=namedtype.NamedTypes(namedtype.NamedType('x', univ.Integer()), namedtype.NamedType('y', univ.OctetString())))
t('iter empty choice', lambda: list(c)); t('len', lambda: len(c)); c['x']=5; t('read y', lambda: c['y']); t('after read y: name', lambda: c.getName()); t('enc', lambda: denc.encode(c).hex())
c['y']=b'q'; t('after set y', lambda: (c.getName(), len(c), [k for k in c], c['x'].isValue)); t('clear', lambda: (c.clear(), len(c), c.isValue)[1:]); t('getComponent', lambda: c.getComponent())
t('Integer() + 1', lambda: univ.Integer()+1); t('int(Integer())', lambda: int(univ.Integer())); t('Integer()==1', lambda: univ.Integer()==1); t('bool(Integer())', lambda: bool(univ.Integer())); t('hash', lambda: hash(univ.Integer()))
t('str(OctetString())', lambda: str(univ.OctetString())); t('len(OctetString())', lambda: len(univ.OctetString())); t('bytes', lambda: bytes(univ.OctetString()))
t('BitString() len', lambda: len(univ.BitString())); t('Real()+1', lambda: univ.Real()+1); t('OID()', lambda: univ.ObjectIdentifier()+ (1,))
