import io, os, sys, gzip, tempfile
from pyasn1.type import univ, namedtype, tag, char, useful
from pyasn1.codec.ber import encoder, decoder
from pyasn1 import error

class Raw(io.RawIOBase):
    def __init__(self, data, maxread=None): self.d=data; self.p=0; self.maxread=maxread
    def seekable(self): return False
    def readable(self): return True
    def read(self, n=-1):
        if n<0: n=len(self.d)-self.p
        if self.maxread: n=min(n,self.maxread)
        r=self.d[self.p:self.p+n]; self.p+=len(r); return r

class S(univ.Sequence):
    componentType = namedtype.NamedTypes(
        namedtype.NamedType('a', univ.OctetString()),
        namedtype.NamedType('b', univ.Integer()),
        namedtype.OptionalNamedType('c', univ.Any()),
        namedtype.NamedType('d', univ.SequenceOf(componentType=univ.OctetString())),
    )
for size in (100, 8000, 8190, 8200, 9000, 20000):
  for mode in ({}, dict(defMode=False), dict(defMode=False, maxChunkSize=1000)):
    s=S(); s['a']=b'x'*size; s['b']=7; s['c']=univ.Any(encoder.encode(univ.OctetString(b'q'*size))); s['d'].extend([b'y'*(size//3)]*4)
    e=encoder.encode(s, **mode)
    ref=decoder.decode(e, asn1Spec=S())
    for spec in (S(), None):
        ref=decoder.decode(e+b'TAIL', asn1Spec=spec)
        try:
            got=decoder.decode(Raw(e+b'TAIL'), asn1Spec=spec)
            ok = got[0]==ref[0] and got[1]==ref[1] and encoder.encode(got[0])==encoder.encode(ref[0])
            print(size, mode, 'spec' if spec else 'nospec', 'OK' if ok else 'MISMATCH tail=%r'%got[1][:10])
        except Exception as ex:
            print(size, mode, 'spec' if spec else 'nospec', 'EXC', type(ex).__name__, str(ex)[:100])
