"""Design probe for C12: k streaming decoders + one-shot calls interleaved over SHARED schema objects,
results vs isolated runs; schema snapshot before/after; debug logging on/off."""
import io, sys, random, collections
sys.path.insert(0,'/verif/notes/probes')
import p13
from pyasn1 import error, debug
from pyasn1.codec.ber import encoder as benc, decoder as bdec
SHARED={p13.mkS: p13.S(), p13.mkOT: p13.OT()}
def snap(spec):
    return (spec.prettyPrintType(), spec.isValue, p13.absval(spec), repr(spec.subtypeSpec))
def isolated(dec, s, spec, kw):
    try: return [p13.absval(o) for o in dec.StreamingDecoder(io.BytesIO(s), asn1Spec=spec, **kw)]
    except Exception as x: return ('EXC', type(x).__name__)
def run(seed, log):
    r=random.Random(seed)
    k=r.choice([2,3,4]); tasks=[]
    for _ in range(k):
        name,enc,dec,opts=r.choice(p13.CODECS); mk=r.choice([p13.mkS,p13.mkOT])
        s=b''
        for _ in range(r.choice([1,2])):
            v,_sp=mk(r)
            try: s+=enc.encode(v,**opts)
            except Exception: return 'skip-enc'
        kw={'decodeOpenTypes':True} if mk is p13.mkOT else {}
        ref=isolated(dec, s, mk(random.Random(0))[1], kw)   # fresh spec object
        if isinstance(ref, tuple): return 'skip-ref'
        st=p13.SimFile(s,'file'); shared=SHARED[mk]
        tasks.append(dict(dec=dec, s=s, st=st, it=iter(dec.StreamingDecoder(st, asn1Spec=shared, **kw)), ref=ref, got=[], done=False, enc=enc, opts=opts, mk=mk))
    before={mk: snap(sp) for mk,sp in SHARED.items()}
    if log: debug.setLogger(debug.Debug('all', printer=lambda m: None))
    try:
        steps=0
        while not all(t['done'] for t in tasks):
            steps+=1
            if steps>2000: return 'HANG'
            t=r.choice([t for t in tasks if not t['done']])
            a=r.random()
            if a<.4:
                t['st'].d=min(len(t['s']), t['st'].d+r.randrange(1,8))
                if t['st'].d==len(t['s']): t['st'].closed=True
            elif a<.9:
                try: x=next(t['it'])
                except StopIteration: t['done']=True; continue
                except Exception as ex: return 'EXC %s %s'%(type(ex).__name__, str(ex)[:50])
                if not isinstance(x, error.SubstrateUnderrunError): t['got'].append(p13.absval(x))
            else:
                # a one-shot call in between, on the shared spec
                v,_=t['mk'](r)
                try:
                    e=t['enc'].encode(v, **t['opts']); t['dec'].decode(e, asn1Spec=SHARED[t['mk']])
                except Exception: pass
    finally:
        if log: debug.setLogger(None)
    for t in tasks:
        if t['got']!=t['ref']: return 'RESULT-DIFFERS'
    after={mk: snap(sp) for mk,sp in SHARED.items()}
    if after!=before: return 'SCHEMA-CHANGED'
    return 'ok'
c=collections.Counter(); ex={}
for seed in range(int(sys.argv[1])):
    for log in (False, True):
        res=run(seed, log); c[(res,log)]+=1; ex.setdefault((res,log),seed)
for k,v in c.most_common(): print(v,k,ex[k])
