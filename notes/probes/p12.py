# streaming decoder on a stream that is CLOSED after a proper prefix
import sys; sys.path.insert(0, '/verif/notes/probes')
from p7 import GenSeek
from pyasn1.type import univ
from pyasn1.codec.ber import encoder, decoder
from pyasn1 import error
v=univ.SequenceOf(componentType=univ.OctetString()); v.extend([b'abcd', b'ef'])
e=encoder.encode(v)
res={}
for k in range(len(e)):
    s=GenSeek(); s.feed(e[:k]); s.eof=True
    it=iter(decoder.StreamingDecoder(s, asn1Spec=v.clone())); out=[]
    for _ in range(6):
        try: x=next(it)
        except StopIteration: out.append('STOP'); break
        except Exception as ex: out.append(type(ex).__name__); break
        out.append('UNDERRUN' if isinstance(x, error.SubstrateUnderrunError) else repr(x)[:20])
    res.setdefault(tuple(out), []).append(k)
print(e.hex())
for o,ks in res.items(): print(ks, o)
