import io, sys
from pyasn1.type import univ, namedtype, tag, char, useful, constraint
from pyasn1.codec.ber import encoder, decoder
from pyasn1.codec.der import encoder as denc
from pyasn1 import error, debug
class Inner(univ.Sequence):
    componentType = namedtype.NamedTypes(namedtype.NamedType('n', univ.Integer()), namedtype.DefaultedNamedType('l', univ.SequenceOf(componentType=univ.Integer()).setComponentByPosition(0, 9)))
class S(univ.Sequence):
    componentType = namedtype.NamedTypes(
        namedtype.NamedType('a', univ.Integer()),
        namedtype.DefaultedNamedType('i', Inner().setComponentByName('n', 1)),
        namedtype.OptionalNamedType('o', univ.SequenceOf(componentType=univ.OctetString())),
        namedtype.DefaultedNamedType('c', univ.Boolean(False)),
    )
spec=S()
print('spec isValue', spec.isValue, spec._componentValues)
v=S(); v['a']=5
e=encoder.encode(v); print(e.hex())
r1,_=decoder.decode(e, asn1Spec=spec)
r2,_=decoder.decode(e, asn1Spec=spec)
print('spec after decode', spec._componentValues)
print(r1.prettyPrint())
# mutate r1's default-instantiated component
r1['i']['l'].append(77)
print('r2 i.l', r2['i']['l'].prettyPrint(), '| spec default', spec.componentType['i'].asn1Object['l'].prettyPrint())
r3,_=decoder.decode(e, asn1Spec=spec)
print('r3 i.l', r3['i']['l'].prettyPrint())
print('same obj?', r1['i'] is r2['i'], r1['i']['l'] is spec.componentType['i'].asn1Object['l'])
# debug logging
out=[]
debug.setLogger(debug.Debug('all', printer=out.append))
r4,_=decoder.decode(e, asn1Spec=spec)
print('with LOG ok', r4==r2, len(out), 'scope', str(debug.scope))
try:
    decoder.decode(b'\x30\x03\x02\x01', asn1Spec=spec)
except Exception as x: print(type(x).__name__)
print('scope after error', repr(str(debug.scope)))
debug.setLogger(None)
