import io, os, itertools, sys
from pyasn1.type import univ, namedtype, tag, char, useful
from pyasn1.codec.ber import encoder, decoder
from pyasn1 import error

class GenSeek(object):
    """generic seekable non-blocking stream, not a BytesIO"""
    def __init__(self): self.data=b''; self.pos=0; self.eof=False
    def feed(self,b): self.data+=b
    def seekable(self): return True
    def tell(self): return self.pos
    def seek(self, n, whence=0):
        if whence==0: self.pos=n
        elif whence==1: self.pos+=n
        else: self.pos=len(self.data)+n
        assert 0<=self.pos<=len(self.data), (n,whence,self.pos)
        return self.pos
    def read(self, n=-1):
        avail=self.data[self.pos:]
        if n==0: return b''
        if not avail: return b'' if self.eof else None
        if n<0: n=len(avail)
        r=avail[:n]; self.pos+=len(r); return r

class BioSeek(io.BytesIO):
    def __init__(self): super().__init__(); self.eof=False
    def feed(self,b):
        p=self.tell(); self.seek(0,2); self.write(b); self.seek(p)
    def read(self,n=-1):
        r=io.BytesIO.read(self,n)
        if not r and n!=0 and not self.eof: return None
        return r

def drive(cls, data, cuts, spec=None, **opts):
    s=cls(); it=iter(decoder.StreamingDecoder(s, asn1Spec=spec, **opts))
    chunks=[data[a:b] for a,b in zip([0]+cuts, cuts+[len(data)])]
    out=[]; ci=0; steps=0
    while True:
        steps+=1
        if steps>5000: out.append('HANG'); break
        try: x=next(it)
        except StopIteration: out.append('STOP'); break
        except Exception as e: out.append('EXC %s: %s'%(type(e).__name__, str(e)[:60])); break
        if isinstance(x, error.SubstrateUnderrunError) or x is None:
            if x is None: out.append('NONE')
            if ci<len(chunks): s.feed(chunks[ci]); ci+=1
            else:
                if s.eof: out.append('UNDERRUN-AFTER-EOF'); break
                s.eof=True
        else: out.append(x.prettyPrint() if hasattr(x,'prettyPrint') else repr(x))
    return tuple(out)

class S(univ.Sequence):
    componentType = namedtype.NamedTypes(
        namedtype.NamedType('a', univ.Integer()),
        namedtype.OptionalNamedType('b', univ.BitString()),
        namedtype.NamedType('e', univ.Choice(componentType=namedtype.NamedTypes(
            namedtype.NamedType('x', univ.Real()), namedtype.NamedType('y', univ.Null()), namedtype.NamedType('z', char.UTF8String())))),
        namedtype.OptionalNamedType('f', univ.Any()),
    )
s=S(); s['a']=300; s['b']=univ.BitString('10110'); s['e']['z']='hé'; s['f']=univ.Any(encoder.encode(univ.OctetString('zz')))
for mode in ({}, dict(defMode=False), dict(defMode=False,maxChunkSize=1)):
    data=encoder.encode(s,**mode)+encoder.encode(s,**mode)
    for spec in (S(), None):
        ref=decoder.decode(data, asn1Spec=spec)
        for cls in (GenSeek, BioSeek):
            res={}
            n=len(data)
            # all single and double cuts
            cutsets=[[]]+[[k] for k in range(1,n)]+[[a,b] for a in range(1,n) for b in range(a+1,n)]
            for cuts in cutsets:
                out=drive(cls,data,cuts,spec)
                res.setdefault(out,[]).append(cuts)
            print(mode, 'spec' if spec else 'nospec', cls.__name__, len(cutsets), 'distinct outcomes', len(res))
            items=sorted(res.items(), key=lambda kv:-len(kv[1]))
            for out,cs in items[:6]:
                print('   ', len(cs), cs[:4], [o[:50].replace('\n','/') for o in out])
