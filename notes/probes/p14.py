import sys, io, random, traceback
sys.path.insert(0,'/verif/notes/probes')
import p13
from pyasn1 import error
# instrument: re-run a seed with tracing of polls
def trace(seed):
    import types
    src=open('/verif/notes/probes/p13.py').read()
    # monkeypatch: print each poll's log
    orig_next=next
    r=p13.run(seed); print('seed',seed,'->',r)
for s in map(int, sys.argv[1:]): trace(s)
