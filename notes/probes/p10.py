from pyasn1.type import univ, namedtype, tag
from pyasn1.codec.ber import encoder, decoder
t=univ.Integer().subtype(explicitTag=tag.Tag(tag.tagClassContext, tag.tagFormatConstructed, 5))
e=encoder.encode(t.clone(5), defMode=False); print(e.hex())
for spec in (t, None):
    print('full', decoder.decode(e, asn1Spec=spec))
    for k in range(len(e)):
        try: print(k, decoder.decode(e[:k], asn1Spec=spec))
        except Exception as x: print(k, type(x).__name__)
class S(univ.Sequence):
    componentType=namedtype.NamedTypes(namedtype.NamedType('a', t), namedtype.NamedType('b', univ.Integer()))
s=S(); s['a']=5; s['b']=6
e=encoder.encode(s, defMode=False); print(e.hex()); print(decoder.decode(e, asn1Spec=S()))
import io
print(list(decoder.StreamingDecoder(io.BytesIO(e+e), asn1Spec=S())))
