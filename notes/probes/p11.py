import itertools
from pyasn1.type import univ, namedtype, tag, char
from pyasn1.codec.der import encoder as denc, decoder as ddec
from pyasn1.codec.cer import encoder as cenc
from pyasn1.codec.ber import encoder as benc, decoder as bdec
class In(univ.Sequence):
    componentType=namedtype.NamedTypes(namedtype.NamedType('n', univ.Integer()), namedtype.OptionalNamedType('l', univ.SequenceOf(componentType=univ.Integer())))
class S(univ.Set):
    componentType=namedtype.NamedTypes(
        namedtype.NamedType('a', univ.Integer()),
        namedtype.OptionalNamedType('b', univ.OctetString()),
        namedtype.DefaultedNamedType('c', univ.Integer(7).subtype(implicitTag=tag.Tag(tag.tagClassContext, tag.tagFormatSimple, 1))),
        namedtype.OptionalNamedType('so', univ.SetOf(componentType=univ.OctetString())),
        namedtype.OptionalNamedType('in', In()),
        namedtype.DefaultedNamedType('d', In().subtype(implicitTag=tag.Tag(tag.tagClassContext, tag.tagFormatConstructed, 2)).setComponentByName('n', 3)),
        namedtype.OptionalNamedType('ch', univ.Choice(componentType=namedtype.NamedTypes(namedtype.NamedType('x', univ.Boolean()), namedtype.NamedType('y', univ.Null())))),
    )
def build(order, explicit_default, reads):
    s=S()
    for k in order:
        if k=='a': s['a']=5
        if k=='b': s['b']=b'hi'
        if k=='so':
            for m in order_so: s['so'].append(m)
        if reads:
            list(s.values()); s.prettyPrint(); s['in']; s['ch']; s['ch']['y'] if False else None; s['so'] ; s['d']['l']; s['in']['l']
            try: denc.encode(s)
            except Exception: pass
    if explicit_default: s['c']=7; s['d']['n']=3
    return s
res={}
for order in itertools.permutations(['a','b','so']):
    for order_so in itertools.permutations([b'b', b'a', b'ab', b'']):
        for ed in (False, True):
            for reads in (False, True):
                try:
                    s=build(order, ed, reads); key=(denc.encode(s).hex(), cenc.encode(s).hex())
                except Exception as x: key=('EXC', type(x).__name__+str(x)[-150:])
                res.setdefault(key,[]).append((order, order_so, ed, reads))
for k,v in res.items(): print(len(v), k, v[0])
s=build(('a','b','so'), False, False); e=denc.encode(s)
for mode in ({}, dict(defMode=False), dict(defMode=False,maxChunkSize=1)):
    r,_=bdec.decode(benc.encode(s,**mode), asn1Spec=S()); print(mode, denc.encode(r)==e)
c=s.clone(cloneValueFlag=True); print('clone', denc.encode(c)==e)
