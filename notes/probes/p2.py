import io
from pyasn1.type import univ, namedtype, tag, char, useful
from pyasn1.codec.ber import encoder, decoder
from pyasn1.codec.cer import encoder as cenc, decoder as cdec
from pyasn1.codec.der import encoder as denc, decoder as ddec
from pyasn1 import error

class S(univ.Sequence):
    componentType = namedtype.NamedTypes(
        namedtype.NamedType('a', univ.Integer()),
        namedtype.OptionalNamedType('b', univ.BitString()),
        namedtype.DefaultedNamedType('c', univ.Boolean(False)),
        namedtype.NamedType('d', univ.OctetString().subtype(explicitTag=tag.Tag(tag.tagClassContext, tag.tagFormatConstructed, 3))),
        namedtype.NamedType('e', univ.Choice(componentType=namedtype.NamedTypes(
            namedtype.NamedType('x', univ.Real()), namedtype.NamedType('y', univ.Null()), namedtype.NamedType('z', char.UTF8String())))),
        namedtype.OptionalNamedType('f', univ.Any()),
    )
s = S(); s['a']=300; s['b']=univ.BitString('10110'); s['c']=True; s['d']=b'hello world'; s['e']['x']=1.5; s['f']=univ.Any(encoder.encode(univ.OctetString('zz')))
vals = [s, univ.BitString('1011011101'), univ.ObjectIdentifier('1.3.6.1.4.1.99999.1'), univ.Real(1.25), univ.Real('inf'), univ.Null(''),
        univ.Integer(5).subtype(explicitTag=tag.Tag(tag.tagClassApplication, tag.tagFormatConstructed, 40)),
        char.BMPString('abc'), useful.GeneralizedTime('20170801120112.5Z'),
        univ.SetOf(componentType=univ.Integer()).clear(),]
so = univ.SetOf(componentType=univ.Integer()); so.extend([3,1,2]); vals.append(so)
cfgs = [('ber', encoder, decoder, {}), ('ber-indef', encoder, decoder, dict(defMode=False)), ('ber-indef-chunk', encoder, decoder, dict(defMode=False, maxChunkSize=2)),
        ('ber-chunk', encoder, decoder, dict(maxChunkSize=3)), ('cer', cenc, cdec, {}), ('der', denc, ddec, {})]
for v in vals:
    for name, enc, dec, opts in cfgs:
        try:
            e = enc.encode(v, **opts)
        except Exception as ex:
            print('ENCFAIL', name, type(v).__name__, ex); continue
        spec = v.clone() if not isinstance(v, univ.Sequence) else S()
        for useSpec in (True, False):
            for k in range(len(e)):
                try:
                    r = dec.decode(e[:k], asn1Spec=spec if useSpec else None)
                    print('RETURNED', name, type(v).__name__, useSpec, k, e.hex(), r)
                except error.SubstrateUnderrunError:
                    pass
                except Exception as ex:
                    print('WRONGEXC', name, type(v).__name__, useSpec, k, e[:k].hex(), '|', e.hex(), type(ex).__name__, str(ex)[:80])
