import io, os, sys, random, collections, traceback
from pyasn1.type import univ, namedtype, tag, char, useful, constraint
from pyasn1.codec.ber import encoder, decoder
from pyasn1.codec.cer import decoder as cdec
from pyasn1.codec.der import decoder as ddec
from pyasn1 import error
sys.setrecursionlimit(3000)
class S(univ.Sequence):
    componentType = namedtype.NamedTypes(
        namedtype.NamedType('a', univ.Integer()),
        namedtype.OptionalNamedType('b', univ.BitString()),
        namedtype.DefaultedNamedType('c', univ.Boolean(False)),
        namedtype.NamedType('d', univ.OctetString().subtype(explicitTag=tag.Tag(tag.tagClassContext, tag.tagFormatConstructed, 3))),
        namedtype.NamedType('e', univ.Choice(componentType=namedtype.NamedTypes(
            namedtype.NamedType('x', univ.Real()), namedtype.NamedType('y', univ.Null()), namedtype.NamedType('z', char.UTF8String()),
            namedtype.NamedType('o', univ.ObjectIdentifier()),namedtype.NamedType('t', useful.UTCTime()),
            namedtype.NamedType('s', univ.SetOf(componentType=univ.Integer())),
            ))),
        namedtype.OptionalNamedType('f', univ.Any()),
        namedtype.OptionalNamedType('g', univ.Set(componentType=namedtype.NamedTypes(
            namedtype.NamedType('p', univ.Integer().subtype(implicitTag=tag.Tag(tag.tagClassContext, tag.tagFormatSimple, 1))),
            namedtype.OptionalNamedType('q', char.BMPString())))),
    )
def mk(r):
    s=S(); s['a']=r.choice([0,-1,127,128,-129,2**70]); 
    if r.random()<.7: s['b']=univ.BitString(''.join(r.choice('01') for _ in range(r.randrange(20))))
    s['c']=r.random()<.5; s['d']=bytes(r.randrange(256) for _ in range(r.randrange(6)))
    k=r.choice('xyzots')
    if k=='x': s['e']['x']=r.choice([0.0,1.5,-3.25e10,float('inf'),univ.Real((123,10,-2))])
    elif k=='y': s['e']['y']=''
    elif k=='z': s['e']['z']=r.choice(['','abc','hé中'])
    elif k=='o': s['e']['o']=r.choice(['1.3.6.1','2.999.3','0.39.1234567'])
    elif k=='t': s['e']['t']='170801120112Z'
    else: s['e']['s'].extend([r.randrange(-300,300) for _ in range(r.randrange(4))]) if r.random()<.8 else s['e']['s'].clear()
    if r.random()<.5: s['f']=univ.Any(encoder.encode(univ.OctetString('zz')))
    if r.random()<.5: s['g']['p']=5; 
    if r.random()<.3 and s['g'].isValue: s['g']['q']='ab'
    return s
r=random.Random(1)
bad=collections.Counter(); ex={}
N=int(sys.argv[1])
for i in range(N):
    v=mk(r); mode=r.choice([{}, dict(defMode=False), dict(defMode=False,maxChunkSize=2), dict(maxChunkSize=3)])
    try: e=bytearray(encoder.encode(v,**mode))
    except Exception as x: bad['ENC '+type(x).__name__]+=1; continue
    for _ in range(r.choice([1,1,2,3])):
        op=r.choice(['flip','ins','del','set','trunc','len'])
        if not e: break
        p=r.randrange(len(e))
        if op=='flip': e[p]^=1<<r.randrange(8)
        elif op=='ins': e.insert(p, r.choice([0,0x80,0xff,0x30,0x31,0x24,0x04,0x03,0x1f,r.randrange(256)]))
        elif op=='del': del e[p]
        elif op=='set': e[p]=r.choice([0,0x80,0xff,0x30,0x31,0x24,0x04,0x03,0x1f,0xa0,0x7f])
        elif op=='trunc': del e[p:]
        elif op=='len': e[p]=r.choice([0x80,0x81,0x84,0x7f,0])
    b=bytes(e)
    for dn,dec in (('ber',decoder),('cer',cdec),('der',ddec)):
        for spec in (S(),None):
            try:
                res=dec.decode(b, asn1Spec=spec)
                if res is None: bad['%s NONE-RESULT'%dn]+=1; ex.setdefault('NONE-RESULT',(b.hex(),spec is not None))
                elif not isinstance(res[0], univ.base.Asn1Item) : bad['NONASN1 %s'%type(res[0]).__name__]+=1; ex.setdefault('NONASN1',(b.hex(),))
                else: bad['ok']+=1
            except error.PyAsn1Error: bad['lib']+=1
            except RecursionError: bad['RecursionError']+=1
            except Exception as x:
                tb=traceback.extract_tb(sys.exc_info()[2])[-1]
                key='%s %s@%s:%d'%(dn, type(x).__name__, os.path.basename(tb.filename), tb.lineno)
                bad[key]+=1; ex.setdefault(key,(b.hex(), spec is not None, str(x)[:80]))
for k,v in bad.most_common(): print(v,k, ex.get(k,''))
