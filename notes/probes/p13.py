"""Design probe: mini stream-world for C05 invariants I1-I6 over a small hand universe.
Throw-away; prints violation classes so the design can anticipate them."""
import io, os, sys, random, collections, hashlib
from pyasn1.type import univ, namedtype, tag, char, useful, opentype
from pyasn1.codec.ber import encoder as benc, decoder as bdec
from pyasn1.codec.cer import encoder as cenc, decoder as cdec
from pyasn1.codec.der import encoder as denc, decoder as ddec
from pyasn1.codec import streaming
from pyasn1 import error

class Sim:
    def __init__(self, s, kind): self.s=s; self.d=0; self.p=0; self.closed=False; self.arm=[]; self.log=[]; self.kind=kind
    def _avail(self): return self.s[self.p:self.d]
    def read(self, n=-1):
        if n==0: self.log.append(('r',0,'full')); return b''
        if self.arm:
            a=self.arm.pop(0)
            if a[0]=='wb': self.log.append(('r',n,'none')); return None
            cap=a[1]
        else: cap=None
        av=self._avail()
        if not av:
            if self.closed: self.log.append(('r',n,'eof')); return b''
            self.log.append(('r',n,'none')); return None
        want=len(av) if n<0 else n
        if cap is not None: want=min(want,cap)
        r=av[:want]; self.p+=len(r)
        self.log.append(('r',n,'full' if (n<0 or len(r)==n) else 'short')); return r
class SimFile(Sim):
    def seekable(self): return True
    def tell(self): return self.p
    def seek(self,n,whence=0):
        if whence==0: self.p=n
        elif whence==1: self.p+=n
        else: self.p=self.d+n
        assert 0<=self.p<=self.d,(n,whence,self.p,self.d); return self.p
class SimPipe(Sim):
    def seekable(self): return False
class SimBio(io.BytesIO):
    def __init__(self,s): super().__init__(); self.s=s; self.d=0; self.closed_=False; self.arm=[]; self.log=[]
    def grow(self,d):
        p=self.tell(); self.seek(0,2); self.write(self.s[self.d:d]); self.seek(p); self.d=d
    def read(self,n=-1):
        if n==0: return b''
        if self.arm:
            a=self.arm.pop(0)
            if a[0]=='wb': self.log.append(('r',n,'none')); return None
            cap=a[1]
        else: cap=None
        p=self.tell(); av=self.d-p
        if av<=0:
            if self.closed_: self.log.append(('r',n,'eof')); return b''
            self.log.append(('r',n,'none')); return None
        want=av if n<0 else min(n,av)
        if cap is not None: want=min(want,cap)
        r=io.BytesIO.read(self,want); self.log.append(('r',n,'full' if (n<0 or len(r)==n) else 'short')); return r

def ctx(n): return tag.Tag(tag.tagClassContext, tag.tagFormatSimple, n)
def ctxc(n): return tag.Tag(tag.tagClassContext, tag.tagFormatConstructed, n)
class Ch(univ.Choice):
    componentType=namedtype.NamedTypes(namedtype.NamedType('x', univ.Real()), namedtype.NamedType('y', univ.Null()), namedtype.NamedType('z', char.UTF8String()),
        namedtype.NamedType('o', univ.ObjectIdentifier()), namedtype.NamedType('s', univ.SetOf(componentType=univ.Integer())))
class In(univ.Set):
    componentType=namedtype.NamedTypes(namedtype.NamedType('p', univ.Integer().subtype(implicitTag=ctx(1))), namedtype.OptionalNamedType('q', char.BMPString()),
        namedtype.DefaultedNamedType('r', univ.Boolean(True).subtype(explicitTag=ctxc(9))))
class S(univ.Sequence):
    componentType=namedtype.NamedTypes(
        namedtype.NamedType('a', univ.Integer()),
        namedtype.OptionalNamedType('b', univ.BitString()),
        namedtype.DefaultedNamedType('c', univ.Boolean(False)),
        namedtype.NamedType('d', univ.OctetString().subtype(explicitTag=ctxc(3))),
        namedtype.NamedType('e', Ch()),
        namedtype.OptionalNamedType('g', In()),
        namedtype.OptionalNamedType('h', univ.OctetString().subtype(implicitTag=tag.Tag(tag.tagClassApplication, tag.tagFormatSimple, 1000))),
        namedtype.OptionalNamedType('f', univ.Any()),
    )
class OT(univ.Sequence):
    componentType=namedtype.NamedTypes(namedtype.NamedType('id', univ.Integer()),
        namedtype.NamedType('blob', univ.Any(), openType=opentype.OpenType('id', {1: univ.Integer(), 2: univ.OctetString(), 3: In()})))
def mkS(r):
    s=S(); s['a']=r.choice([0,-1,127,128,-129,2**70])
    if r.random()<.7: s['b']=univ.BitString(''.join(r.choice('01') for _ in range(r.randrange(20))))
    s['c']=r.random()<.5; s['d']=bytes(r.randrange(256) for _ in range(r.randrange(6)))
    k=r.choice('xyzos')
    if k=='x': s['e']['x']=r.choice([0.0,1.5,-3.25e10,float('inf')])
    elif k=='y': s['e']['y']=''
    elif k=='z': s['e']['z']=r.choice(['','abc','hé中'])
    elif k=='o': s['e']['o']=r.choice(['1.3.6.1','2.999.3','0.39.1234567'])
    else:
        if r.random()<.8: s['e']['s'].extend([r.randrange(-300,300) for _ in range(r.randrange(4))])
        else: s['e']['s'].clear()
    if r.random()<.5:
        s['g']['p']=r.randrange(1000)
        if r.random()<.5: s['g']['q']='ab'
        if r.random()<.5: s['g']['r']=False
    if r.random()<.4: s['h']=bytes(r.randrange(256) for _ in range(r.randrange(200)))
    if r.random()<.5: s['f']=univ.Any(benc.encode(univ.OctetString('zz')))
    return s, S()
def mkOT(r):
    o=OT(); k=r.choice([1,2,3,4]); o['id']=k
    if k==1: o['blob']=univ.Integer(77)
    elif k==2: o['blob']=univ.OctetString(b'qq')
    elif k==3: i=In(); i['p']=5; o['blob']=i
    else: o['blob']=univ.Any(benc.encode(univ.Null('')))
    return o, OT()
def mkSimple(r):
    v=r.choice([univ.Integer(5), univ.BitString('1011011101'), univ.OctetString(b'x'*r.randrange(300)), univ.ObjectIdentifier('1.3.6.1.4.1.99999.1'), univ.Real(1.25), univ.Null(''),
        char.UTF8String('hé'), useful.GeneralizedTime('20170801120112.5Z'),
        univ.OctetString(b'abc').subtype(explicitTag=ctxc(40)), univ.SequenceOf(componentType=univ.OctetString()).clear()])
    return v, v.clone()
CODECS=[('ber',benc,bdec,{}),('indef',benc,bdec,dict(defMode=False)),('chunk',benc,bdec,dict(defMode=False,maxChunkSize=3)),('dchunk',benc,bdec,dict(maxChunkSize=2)),('cer',cenc,cdec,{}),('der',denc,ddec,{})]

def absval(o):
    if o is None: return None
    if isinstance(o, univ.Choice): 
        try: return ('CH', o.getName(), absval(o.getComponent()))
        except error.PyAsn1Error: return ('CH-EMPTY',)
    if isinstance(o,(univ.SequenceOf,univ.SetOf)): return (type(o).__name__, tuple(absval(o.getComponentByPosition(i,default=None,instantiate=False)) for i in range(len(o))))
    if isinstance(o,(univ.Sequence,univ.Set)):
        if not o.isValue and not o.componentType: return ('NOVAL',)
        n=len(o.componentType) or (len(o) if o.isValue else 0)
        return (type(o).__name__, tuple(absval(o.getComponentByPosition(i,default=None,instantiate=False)) for i in range(n)))
    if not o.isValue: return ('NOVAL', type(o).__name__)
    if isinstance(o, univ.BitString): return ('BS', o.asBinary())
    if isinstance(o, univ.OctetString): return (type(o).__name__, o.asOctets())
    if isinstance(o, univ.ObjectIdentifier): return ('OID', o.asTuple())
    if isinstance(o, univ.Real): return ('REAL', o.isInf and str(float(o)) or tuple(o))
    if isinstance(o, univ.Integer): return (type(o).__name__, int(o))
    return ('?', repr(o))

def run(seed):
    r=random.Random(seed)
    n=r.choice([1,1,2,3]); items=[]; 
    name,enc,dec,opts=r.choice(CODECS)
    mk=r.choice([mkS,mkS,mkOT,mkSimple])
    useSpec = True if mk is not mkSimple else r.random()<.6
    spec=None; s=b''
    for _ in range(n):
        v,sp=mk(r); spec=sp
        try: s+=enc.encode(v,**opts)
        except Exception: return ('skip-enc',)
        if mk is mkSimple: break
    kw={}
    if mk is mkOT: kw['decodeOpenTypes']=True
    try: ref=[absval(o) for o in dec.StreamingDecoder(io.BytesIO(s), asn1Spec=spec if useSpec else None, **kw)]
    except Exception as ex: return ('skip-ref',type(ex).__name__)
    kind=r.choice(['file','pipe','bio'])
    if kind=='file': st=SimFile(s,kind); sub=st
    elif kind=='pipe': st=SimPipe(s,kind); sub=st
    else: st=SimBio(s); sub=st
    it=iter(dec.StreamingDecoder(sub, asn1Spec=spec if useSpec else None, **kw))
    # plan
    steps=[]; d=0
    while d<len(s) and len(steps)<40:
        a=r.random()
        if a<.45:
            k=r.randrange(1, max(2,min(len(s)-d, r.choice([1,2,3,5,20,400]))+1)); d=min(len(s),d+k); steps.append(('deliver',d))
        elif a<.85: steps.append(('poll',))
        elif a<.93: steps.append(('arm',('wb',)))
        else: steps.append(('arm',('short',r.randrange(1,4))))
    lateclose=r.random()<.5
    got=[]; viol=None; closed=False
    def setd(d):
        if kind=='bio': st.grow(d)
        else: st.d=d
    def close():
        if kind=='bio': st.closed_=True
        else: st.closed=True
    def poll(after_drain=False):
        nonlocal viol
        st.log.clear()
        try: x=next(it)
        except StopIteration:
            if not closed_flag[0] : return 'STOP-OPEN'
            if len(got)<len(ref): return 'STOP-EARLY'
            return 'STOP'
        except Exception as ex: return 'ERR %s@%s'%(type(ex).__name__, str(ex)[:40])
        if isinstance(x, error.SubstrateUnderrunError):
            starved=any(k in ('none','short','eof') for _,_,k in st.log)
            if not starved: return 'UNJUSTIFIED-UNDERRUN'
            if after_drain: return 'UNDERRUN-AFTER-DRAIN'
            return 'U'
        if x is None: return 'NONE-YIELDED'
        a=absval(x)
        if len(got)>=len(ref) or a!=ref[len(got)]: return 'WRONG-OBJ'
        got.append(a); return 'O'
    closed_flag=[False]
    for stp in steps:
        if stp[0]=='deliver':
            setd(stp[1])
            if stp[1]==len(s) and not lateclose: close(); closed_flag[0]=True
        elif stp[0]=='arm': st.arm.append(stp[1])
        else:
            res=poll()
            if res not in ('U','O'): return ('V', res, kind, name, mk.__name__, useSpec)
    setd(len(s)); st.arm.clear()
    if lateclose:
        # a few polls with all data but still open
        for _ in range(r.randrange(0,3)):
            res=poll()
            if res not in ('U','O'): return ('V', res+'(open,alldata)', kind, name, mk.__name__, useSpec)
    close(); closed_flag[0]=True
    for _ in range(len(ref)-len(got)+2):
        res=poll(after_drain=True)
        if res=='STOP': return ('ok',)
        if res!='O': return ('V', res+'(drain)', kind, name, mk.__name__, useSpec)
    return ('V','NO-STOP(drain)',kind,name,mk.__name__,useSpec)

if __name__=='__main__':
    N=int(sys.argv[1]); c=collections.Counter(); ex={}
    for seed in range(N):
        try: res=run(seed)
        except AssertionError as e: res=('HARNESS-ASSERT',str(e)[:60])
        c[res]+=1; ex.setdefault(res,seed)
    for k,v in c.most_common(): print(v,k,'seed',ex[k])
