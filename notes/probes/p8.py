import sys, threading, random, time, hashlib
from pyasn1.type import univ, namedtype
from pyasn1.codec.ber import encoder, decoder
class S(univ.Sequence):
    componentType = namedtype.NamedTypes(namedtype.NamedType('a', univ.Integer()), namedtype.NamedType('s', univ.SequenceOf(componentType=univ.OctetString())))
class Sched:
    def __init__(self, seed, n, p=0.02):
        self.r=random.Random(seed); self.n=n; self.p=p; self.cv=threading.Condition(); self.turn=0; self.alive=set(range(n)); self.log=[]; self.steps=0
    def tracer(self, tid):
        def local(frame, event, arg):
            if event=='line':
                self.steps+=1
                if self.r.random()<self.p: self.switch(tid)
            return local
        def glob(frame, event, arg):
            if 'pyasn1' in frame.f_code.co_filename: return local
            return None
        return glob
    def switch(self, tid):
        with self.cv:
            others=sorted(self.alive)
            nxt=self.r.choice(others)
            self.log.append(nxt)
            if nxt==tid: return
            self.turn=nxt; self.cv.notify_all()
            while self.turn!=tid: self.cv.wait()
    def run(self, tid, fn, out):
        with self.cv:
            while self.turn!=tid: self.cv.wait()
        sys.settrace(self.tracer(tid))
        try: out[tid]=fn()
        finally:
            sys.settrace(None)
            with self.cv:
                self.alive.discard(tid)
                if self.alive:
                    self.turn=self.r.choice(sorted(self.alive)); self.log.append(('exit',tid,self.turn)); self.cv.notify_all()
def task(i):
    def f():
        v=S(); v['a']=i; v['s'].extend([b'x'*i, b'y'])
        e=encoder.encode(v); r,_=decoder.decode(e, asn1Spec=S()); return e.hex(), r.prettyPrint()
    return f
def once(seed):
    s=Sched(seed,4); out={}
    ths=[threading.Thread(target=s.run, args=(i,task(i),out)) for i in range(4)]
    for t in ths: t.start()
    for t in ths: t.join()
    return hashlib.sha256(repr((s.log,sorted(out.items()))).encode()).hexdigest()[:12], s.steps, len(s.log)
t=time.time()
for seed in range(5):
    a=once(seed); b=once(seed); print(seed, a, a==b)
print('time', time.time()-t)
