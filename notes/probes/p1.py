import io, os, itertools, traceback
from pyasn1.type import univ, namedtype, tag, char
from pyasn1.codec.ber import encoder, decoder
from pyasn1 import error

class SeekStream(io.BytesIO):
    """BytesIO subclass: growing, returns None when no data and not closed."""
    def __init__(self):
        super().__init__()
        self.closed_ = False
    def feed(self, b):
        p = self.tell(); self.seek(0, 2); self.write(b); self.seek(p)
    def read(self, n=-1):
        r = io.BytesIO.read(self, n)
        if not r and n != 0 and not self.closed_:
            return None
        return r

class RawStream(io.RawIOBase):
    """non-seekable non-blocking"""
    def __init__(self):
        self.buf = b''; self.eof = False
    def feed(self, b): self.buf += b
    def seekable(self): return False
    def readable(self): return True
    def read(self, n=-1):
        if not self.buf:
            return b'' if self.eof else None
        if n < 0: n = len(self.buf)
        r, self.buf = self.buf[:n], self.buf[n:]
        return r

def drive(streamcls, data, cuts, spec=None, dec=decoder):
    s = streamcls()
    it = iter(dec.StreamingDecoder(s, asn1Spec=spec))
    chunks = [data[a:b] for a, b in zip([0]+cuts, cuts+[len(data)])]
    out = []
    ci = 0
    steps = 0
    while True:
        steps += 1
        if steps > 10000: out.append('HANG'); break
        try:
            x = next(it)
        except StopIteration:
            out.append('STOP'); break
        except Exception as e:
            out.append('EXC %s: %s' % (type(e).__name__, e)); break
        if isinstance(x, error.SubstrateUnderrunError) or x is None:
            if ci < len(chunks):
                s.feed(chunks[ci]); ci += 1
            else:
                if hasattr(s, 'closed_'):
                    if s.closed_: out.append('UNDERRUN-AFTER-CLOSE'); break
                    s.closed_ = True
                else:
                    if s.eof: out.append('UNDERRUN-AFTER-CLOSE'); break
                    s.eof = True
        else:
            out.append(x)
    return out, ci, len(chunks)

seq = univ.SequenceOf(componentType=univ.OctetString())
seq.extend([b'ab', b'cde'])
for mode in (dict(), dict(defMode=False), dict(defMode=False, maxChunkSize=2)):
    data = encoder.encode(seq, **mode) + encoder.encode(univ.Integer(5))
    print(mode, data.hex())
    n = len(data)
    for cls in (SeekStream, RawStream):
        bad = {}
        tot = 0
        for k in range(0, n+1):
            cuts = [k] if 0 < k < n else []
            out, ci, nch = drive(cls, data, cuts)
            tot += 1
            desc = tuple(o if isinstance(o, str) else o.prettyPrint() for o in out)
            bad.setdefault(desc, []).append(k)
        for d, ks in bad.items():
            print(cls.__name__, ks, d)
