"""Design probe: C06 (every cut point, 3 presentations) and C07 (tails, positions) on the p13 mini-universe."""
import io, sys, random, collections
sys.path.insert(0,'/verif/notes/probes')
import p13
from pyasn1 import error
def classify(exc):
    if isinstance(exc, error.EndOfStreamError): return 'EOS'
    if isinstance(exc, error.SubstrateUnderrunError): return 'UNDERRUN'
    if isinstance(exc, error.PyAsn1Error): return 'LIBERR:'+str(exc)[:40]
    return 'EXC:'+type(exc).__name__+':'+str(exc)[:40]
def c06(seed, c, ex):
    r=random.Random(seed)
    name,enc,dec,opts=r.choice(p13.CODECS); mk=r.choice([p13.mkS,p13.mkS,p13.mkOT,p13.mkSimple])
    v,spec=mk(r); useSpec=True if mk is not p13.mkSimple else r.random()<.6
    kw={'decodeOpenTypes':True} if mk is p13.mkOT else {}
    try: e=enc.encode(v,**opts)
    except Exception: c['skip-enc']+=1; return
    sp=spec if useSpec else None
    try:
        ref,rest=dec.decode(e, asn1Spec=sp, **kw)
        if rest or ref is None: c['skip-ref-rest']+=1; return
    except Exception: c['skip-ref']+=1; return
    if len(e)>120: c['skip-long']+=1; return
    for k in range(len(e)):
        # 1: one-shot bytes
        try: dec.decode(e[:k], asn1Spec=sp, **kw); res='RETURNED'
        except Exception as x: res=classify(x)
        if res not in ('EOS','UNDERRUN'):
            key=('oneshot',res); c[key]+=1; ex.setdefault(key,(seed,k,e.hex()))
        else: c['ok1']+=1
        # 3: streaming open then closed, kinds
        for kind in ('file','pipe'):
            st=(p13.SimFile if kind=='file' else p13.SimPipe)(e[:k],kind)
            it=iter(dec.StreamingDecoder(st, asn1Spec=sp, **kw))
            d=0; bad=None
            # deliver in random chunks with polls
            while d<k:
                d=min(k,d+r.randrange(1,6)); st.d=d
                try: x=next(it)
                except StopIteration: bad='STOP-OPEN'; break
                except Exception as xx: bad='OPEN:'+classify(xx); break
                if not isinstance(x, error.SubstrateUnderrunError): bad='OPEN-OBJ'; break
            if bad is None:
                for _ in range(2):
                    try: x=next(it)
                    except StopIteration: bad='STOP-OPEN'; break
                    except Exception as xx: bad='OPEN:'+classify(xx); break
                    if not isinstance(x, error.SubstrateUnderrunError): bad='OPEN-OBJ'; break
            if bad is None:
                st.closed=True; out=None
                for _ in range(3):
                    try: x=next(it)
                    except StopIteration: out='STOP-AFTER-CLOSE'; break
                    except Exception as xx: out=classify(xx); break
                    if not isinstance(x, error.SubstrateUnderrunError): out='OBJ-AFTER-CLOSE'; break
                if out is None: out='UNDERRUN-FOREVER'
                if out!='EOS': bad='CLOSED:'+out
            if bad:
                key=('stream',kind,bad); c[key]+=1; ex.setdefault(key,(seed,k,e.hex()))
            else: c['ok3']+=1
def c07(seed, c, ex):
    r=random.Random(seed)
    name,enc,dec,opts=r.choice(p13.CODECS); mk=r.choice([p13.mkS,p13.mkS,p13.mkOT,p13.mkSimple])
    useSpec=True if mk is not p13.mkSimple else r.random()<.6
    kw={'decodeOpenTypes':True} if mk is p13.mkOT else {}
    es=[]; 
    for _ in range(r.choice([1,2,3])):
        v,spec=mk(r)
        try: es.append(enc.encode(v,**opts))
        except Exception: c['skip-enc']+=1; return
        if mk is p13.mkSimple: break
    sp=spec if useSpec else None
    e=es[0]
    try: ref,rest0=dec.decode(e, asn1Spec=sp, **kw)
    except Exception: c['skip-ref']+=1; return
    if rest0: key=('oneshot','NONEMPTY-REMAINDER-NO-TAIL', name); c[key]+=1; ex.setdefault(key,(seed,e.hex())); return
    for t in (b'', b'\x00\x00', b'\x00'*5, es[-1], bytes(r.randrange(256) for _ in range(5))):
        try:
            v2,rest=dec.decode(e+t, asn1Spec=sp, **kw)
            if bytes(rest)!=t or p13.absval(v2)!=p13.absval(ref): key=('oneshot','TAIL-MISMATCH',name); c[key]+=1; ex.setdefault(key,(seed,e.hex(),t.hex(),bytes(rest).hex()))
            else: c['ok-tail']+=1
        except Exception as x: key=('oneshot','TAIL-EXC',classify(x)); c[key]+=1; ex.setdefault(key,(seed,e.hex(),t.hex()))
    # positions on a seekable stream, all data present
    s=b''.join(es); st=p13.SimFile(s,'file'); st.d=len(s); st.closed=True
    bounds=[]; acc=0
    for x in es: acc+=len(x); bounds.append(acc)
    i=0
    try:
        for o in dec.StreamingDecoder(st, asn1Spec=sp, **kw):
            if isinstance(o, error.SubstrateUnderrunError): continue
            if i>=len(bounds) or st.tell()!=bounds[i]:
                key=('stream','POS-MISMATCH',name); c[key]+=1; ex.setdefault(key,(seed,s.hex(),i,st.tell(),bounds)); break
            i+=1
        else:
            if i!=len(bounds): key=('stream','COUNT-MISMATCH',name); c[key]+=1; ex.setdefault(key,(seed,s.hex(),i))
            else: c['ok-pos']+=1
    except Exception as x: key=('stream','EXC',classify(x)); c[key]+=1; ex.setdefault(key,(seed,s.hex()))
if __name__=='__main__':
    which=sys.argv[1]; N=int(sys.argv[2]); c=collections.Counter(); ex={}
    for seed in range(N): (c06 if which=='c06' else c07)(seed,c,ex)
    for k,v in c.most_common(): print(v,k,str(ex.get(k,''))[:230])
