"""Design probe for C11 part A: outcome per substrate kind vs bytes."""
import io, os, sys, gzip, zipfile, tempfile, random, collections, shutil
sys.path.insert(0,'/verif/notes/probes')
import p13
from pyasn1.type import univ
from pyasn1.codec.ber import encoder as benc, decoder as bdec
from pyasn1 import error
class Raw(io.RawIOBase):
    def __init__(self,b): self.b=b; self.p=0
    def readable(self): return True
    def seekable(self): return False
    def readinto(self, buf):
        n=min(len(buf), len(self.b)-self.p); buf[:n]=self.b[self.p:self.p+n]; self.p+=n; return n
class Pipe:
    def __init__(self,b): self.b=b; self.p=0
    def seekable(self): return False
    def read(self,n=-1):
        if n<0: n=len(self.b)-self.p
        r=self.b[self.p:self.p+n]; self.p+=len(r); return r
tmp=tempfile.mkdtemp(prefix='c11probe')
def kinds(b):
    yield 'bytes', lambda: b, None
    yield 'BytesIO', lambda: io.BytesIO(b), None
    yield 'OctetString', lambda: univ.OctetString(b), None
    yield 'Any', lambda: univ.Any(b), None
    p=os.path.join(tmp,'f.bin'); open(p,'wb').write(b)
    yield 'file', lambda: open(p,'rb'), 'close'
    yield 'file-unbuffered', lambda: open(p,'rb',buffering=0), 'close'
    g=os.path.join(tmp,'f.gz'); 
    with gzip.open(g,'wb') as o: o.write(b)
    yield 'gzip', lambda: gzip.open(g,'rb'), 'close'
    yield 'BufferedReader(raw-nonseek)', lambda: io.BufferedReader(Raw(b)), None
    yield 'pipe', lambda: Pipe(b), None
def outcome(dec, sub, spec, kw):
    try:
        v,rest=dec.decode(sub, asn1Spec=spec, **kw); return ('ok', p13.absval(v), bytes(rest))
    except error.PyAsn1Error as ex: return ('lib', type(ex).__name__)
    except Exception as ex: return ('EXC', type(ex).__name__, str(ex)[:50])
def outcome_stream(dec, sub, spec, kw):
    out=[]
    try:
        for o in dec.StreamingDecoder(sub, asn1Spec=spec, **kw):
            out.append(p13.absval(o) if not isinstance(o, error.SubstrateUnderrunError) else 'U')
            if len(out)>50: break
        return ('ok', tuple(out))
    except error.PyAsn1Error as ex: return ('lib', tuple(out), type(ex).__name__)
    except Exception as ex: return ('EXC', tuple(out), type(ex).__name__, str(ex)[:50])
c=collections.Counter(); ex={}
N=int(sys.argv[1])
for seed in range(N):
    r=random.Random(seed)
    name,enc,dec,opts=r.choice(p13.CODECS); mk=r.choice([p13.mkS,p13.mkOT,p13.mkSimple])
    v,spec=mk(r)
    try: b=enc.encode(v,**opts)
    except Exception: c['skip-enc']+=1; continue
    big=r.random()<.15
    if big and mk is p13.mkS:
        v['h']=bytes(r.randrange(256) for _ in range(r.choice([8180,8192,8200,20000])))
        try: b=enc.encode(v,**opts)
        except Exception: c['skip-enc']+=1; continue
    n=r.choice([1,2,3]); b=b*n
    m=r.random()
    if m<.3: b+=r.choice([b'',b'\x00\x00',b'garbage'])
    elif m<.5:
        bb=bytearray(b); bb[r.randrange(len(bb))]^=1<<r.randrange(8); b=bytes(bb)
    useSpec = r.random()<.8
    kw={'decodeOpenTypes':True} if mk is p13.mkOT else {}
    ref=None; refs=None
    for kname, mkst, closer in kinds(b):
        st=mkst(); o=outcome(dec, st, spec if useSpec else None, kw)
        if closer: st.close()
        st=mkst(); os_=outcome_stream(dec, st, spec if useSpec else None, kw)
        if closer: st.close()
        if kname=='bytes': ref=o; refs=os_; continue
        if o!=ref:
            key=('oneshot',kname,name,ref[0],o[0], o[1:] if o[0]!='ok' else '', big); c[key]+=1; ex.setdefault(key,seed)
        else: c['same']+=1
        if os_!=refs:
            key=('stream',kname,name,refs[0],os_[0], os_[2:] if os_[0]!='ok' else '', big); c[key]+=1; ex.setdefault(key,seed)
        else: c['same']+=1
shutil.rmtree(tmp)
for k,v in c.most_common(): print(v,k,'seed',ex.get(k))
