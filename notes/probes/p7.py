import io, sys
from pyasn1.type import univ, namedtype, tag, char, useful, constraint
from pyasn1.codec.ber import encoder, decoder
from pyasn1.codec import streaming
from pyasn1 import error, debug
class S(univ.Sequence):
    componentType = namedtype.NamedTypes(
        namedtype.NamedType('a', univ.Integer()),
        namedtype.OptionalNamedType('f', univ.Any()),
        namedtype.NamedType('s', univ.SequenceOf(componentType=univ.OctetString())),
    )
class GenSeek(object):
    def __init__(self): self.data=b''; self.pos=0; self.eof=False
    def feed(self,b): self.data+=b
    def seekable(self): return True
    def tell(self): return self.pos
    def seek(self, n, whence=0):
        if whence==0: self.pos=n
        elif whence==1: self.pos+=n
        else: self.pos=len(self.data)+n
        return self.pos
    def read(self, n=-1):
        avail=self.data[self.pos:]
        if n==0: return b''
        if not avail: return b'' if self.eof else None
        if n<0: n=len(avail)
        r=avail[:n]; self.pos+=len(r); return r
class Pipe(object):
    def __init__(self): self.buf=b''; self.eof=False
    def feed(self,b): self.buf+=b
    def seekable(self): return False
    def read(self,n=-1):
        if n==0: return b''
        if not self.buf: return b'' if self.eof else None
        if n<0: n=len(self.buf)
        r,self.buf=self.buf[:n],self.buf[n:]; return r
def drive(mk, data, cuts, spec):
    raw=mk(); s=raw if raw.seekable() else streaming.CachingStreamWrapper(raw)
    it=iter(decoder.StreamingDecoder(s, asn1Spec=spec))
    chunks=[data[a:b] for a,b in zip([0]+cuts, cuts+[len(data)])]
    out=[]; ci=0; steps=0
    while True:
        steps+=1
        if steps>300: out.append('HANG'); break
        try: x=next(it)
        except StopIteration: out.append('STOP'); break
        except Exception as e: out.append('EXC %s: %s'%(type(e).__name__, str(e)[:60])); break
        if isinstance(x, error.SubstrateUnderrunError) or x is None:
            if x is None: out.append('NONE')
            if ci<len(chunks): raw.feed(chunks[ci]); ci+=1
            else:
                if raw.eof: out.append('UNDERRUN-AFTER-EOF'); break
                raw.eof=True
        else: out.append(x.prettyPrint().replace('\n','/'))
    return tuple(out)
v=S(); v['a']=5; v['f']=univ.Any(encoder.encode(univ.OctetString('zz'))); v['s'].extend([b'ab',b'c'])
for log in (False, True):
    debug.setLogger(debug.Debug('all', printer=lambda m: None) if log else None)
    for mode in ({}, dict(defMode=False)):
        data=encoder.encode(v, **mode)
        for mk in (GenSeek,):
            res={}
            for k in range(len(data)):
                out=drive(mk, data, [k] if k else [], S()); res.setdefault(out,[]).append(k)
            print('LOG',log, mode, mk.__name__)
            for o,ks in res.items(): print('   ',ks, [x[:40] for x in o])
