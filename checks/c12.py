"""C12 -- codec calls are pure: no effect on schemas, inputs, configuration or each other.

Task-world: 2..5 tasks (encode, one-shot decode, streaming decode with its own
arrival sub-plan, prettyPrint/iteration, native codec) over SHARED schema and value
objects and the module-level codec singletons, under four kinds of schedule:
back-to-back histories, step-by-step interleaving of suspended decoder generators,
real threads pre-empted at Python-line granularity by a baton-passing scheduler, and
any of these with debug logging switched on.  Oracles: (a) every task outcome equals
the outcome of the same task alone, on fresh objects, in a forked child; (b) semantic
snapshots of the shared schema and input values never move; (c) mutating one result
moves neither the schema nor any other result; (d) the debug scope stack returns to
its initial depth.
"""
import copy
import json
import os
import sys

from simkit import globalstate, plan as P, streams, threads, tlv, universe as U, world as W
from checks import common

ID = 'C12'
LEVEL = 'exploration'
TIERS = {'quick': 5000, 'thorough': 250000}
BUDGET = {'quick': 150, 'thorough': 1500}
RULE = ('seeded plans: descriptor + 1-3 shared values + 2-5 tasks (encode / decode / streaming decode with own arrival '
        'sub-plan / print / native codec, each with its own codec mode) + schedule {history with repeats | generator '
        'interleaving | baton-passed threads with seeded switch points at pyasn1 line events} + logging {off, all, decoder, encoder, toggled between calls}. '
        'non-trivial: at least two tasks overlapped (an interleaving step of another task, or a thread switch, happened '
        'while a task was incomplete) or a task ran after another on the same shared objects; distinct = distinct plan digests')
ASSUMPTIONS = [
    'the isolated reference is the same task alone on fresh objects in a forked child process (logging off)',
    'thread pre-emption is at Python line granularity inside pyasn1 frames (sys.settrace); races inside one bytecode are out of reach',
    'snapshot = public observables only (appendix C of DESIGN.md); lazily cached private attributes may change',
]
REAL = ['pyasn1.codec.{ber,cer,der,native}.{encoder,decoder} module-level singletons', 'pyasn1.type.* shared schema/value objects',
        'pyasn1.debug (setLogger, scope)', 'CPython threads (real OS threads, one runnable at a time)']
STUB = ['task bodies and their consumer loops', 'SimFile byte sources', 'baton-passing scheduler deciding every thread switch',
        'fork-based isolation for the reference outcomes']

TASK_KINDS = ['encode', 'decode', 'decode', 'stream', 'stream', 'print', 'native']    # plus 'deep', added separately


def _codecs_for(desc):
    cs = ['ber', 'ber-indef', 'cer', 'der']
    if not U.has_kind(desc, U.CHARS + U.TIMES):
        cs += ['ber-chunk:2', 'ber-indef-chunk:3']
    return cs


_SWAP_KINDS = ['INTEGER', 'OCTETSTRING', 'BOOLEAN', 'NULL', 'BITSTRING', 'UTF8', 'OID']
_ROT = {'C': 'A', 'A': 'P', 'P': 'C'}


def _neighbour_desc(r, desc, mode):
    """A type that collides with desc in whatever a careless process-global cache could be keyed by:
    the same tag numbers with the other tagging mode (IMPLICIT <-> EXPLICIT), with another tag class,
    or on another base type."""
    d = copy.deepcopy(desc)

    def walk(x, is_default=False):
        tags = x.get('tags') or []
        if 'flip' in mode and tags:
            for i in range(len(tags)):
                innermost_base = (i == 0)
                if tags[i][0] == 'E':
                    if not (innermost_base and x['k'] in ('CHOICE', 'ANY')):
                        tags[i][0] = 'I'
                else:
                    tags[i][0] = 'E'
        if 'rot' in mode:
            for t in tags:
                t[1] = _ROT.get(t[1], t[1])
        if 'swap' in mode and x['k'] in U.PRIMS and not is_default and r.random() < 0.7:
            nk = r.choice([k for k in _SWAP_KINDS if k != x['k']])
            for key in ('named', 'con'):
                x.pop(key, None)
            x['k'] = nk
        k = x['k']
        if k in ('SEQ', 'SET'):
            for f in x['fields']:
                walk(f['d'], is_default=(f['opt'] == 'D') or is_default)
        elif k in ('SEQOF', 'SETOF'):
            walk(x['of'], is_default)
        elif k == 'CHOICE':
            for a in x['alts']:
                walk(a[1], is_default)
    walk(d)
    return d


def _has_con(desc):
    return bool(desc.get('con')) or any(_has_con(c) for c in U.children(desc))


def _bad_input(r, w, task):
    """Hex of an input for decode(…, asn1Spec=T) that is close to a value of T but is not one."""
    from checks import c10
    from simkit import corrupt
    try:
        v = w['values'][task['v']]
        enc, dec, opts = U.codec(task['codec'])
        n_leaves = c10._count_con(w['desc'], v)
        if n_leaves and r.random() < 0.7:
            info = []
            nv = c10._violate(r, w['desc'], copy.deepcopy(v), [r.randrange(n_leaves)], info)
            nd = c10._strip_con(w['desc'])
            sch = U.build_schema(nd)
            return enc.encode(U.build_value(sch, nd, nv), **opts).hex()
        sch = U.build_schema(w['desc'])
        e = enc.encode(U.build_value(sch, w['desc'], v), **opts)
        ops = corrupt.gen_ops(r, e, corrupt.nodes_of(e), max_ops=1)
        b = corrupt.apply(e, ops)
        return b.hex() if len(b) < 4000 else None
    except Exception:
        return None


def _strip_key(desc, key):
    d = copy.deepcopy(desc)

    def walk(x):
        x.pop(key, None)
        for c in U.children(x):
            walk(c)
    walk(d)
    return d


def _gen_neighbours(r, w):
    """0-2 colliding neighbour types, each with its own values (generation side)."""
    out = []
    if U.has_open(w['desc']):
        return out
    if U.has_key(w['desc'], 'enc') and r.random() < 0.8:
        # the same type with the library's own text encodings: the parent classes of T's character types
        nd = _strip_key(w['desc'], 'enc')
        try:
            sch = U.build_schema(nd)
            vals = [U.gen_value(r, nd, U.ValCfg(small=True)) for _ in w['values']]
            for v in vals:
                U.build_value(sch, nd, v)
            out.append({'desc': nd, 'values': vals, 'how': 'plain-encoding'})
        except Exception:
            pass
    for _ in range(r.choice([0, 1, 1, 2])):
        mode = r.choice(['flip', 'flip', 'flip+swap', 'swap', 'rot', 'flip+rot'])
        nd = _neighbour_desc(r, w['desc'], mode)
        if nd == w['desc']:
            continue
        try:
            sch = U.build_schema(nd)
            if hasattr(sch, 'tagMap'):
                sch.tagMap
            if U.schema_problem(sch):
                continue
            if 'swap' in mode:
                vals = [U.gen_value(r, nd, U.ValCfg(small=True)) for _ in w['values']]
            else:
                vals = copy.deepcopy(w['values'])
            for v in vals:
                U.build_value(sch, nd, v)
        except Exception:
            continue
        out.append({'desc': nd, 'values': vals, 'how': mode})
    return out


def gen_plan(r, index, tier):
    w, cfg = common.gen_stream_workload(r, max_values=3, small=True, force_codec='ber', allow_f2=False, variants=False,
                                        constructed_default=r.random() < 0.4, constraints=r.random() < 0.4,
                                        octet_encoding=r.random() < 0.5)
    if r.random() < 0.12:
        # open types (and the caller-supplied openTypes= configuration) are rare in random descriptors
        for _ in range(12):
            if w['open_types']:
                break
            w, cfg = common.gen_stream_workload(r, max_values=3, small=True, force_codec='ber', allow_f2=False,
                                                variants=False)
    desc = w['desc']
    if desc['k'] in ('SEQ', 'SET') and desc.get('fields') and r.random() < 0.15 and \
            not any(f['n'] == 'zrec' for f in desc['fields']):
        # an ABSENT optional record all of whose own fields are optional: a placeholder of that type is born as
        # a value, so anything that instantiates the slot behind the caller's back changes the value's encoding
        desc['fields'].append({'n': 'zrec', 'opt': 'O',
                               'd': {'k': 'SEQ', 'tags': [['I', 'P', 29]],
                                     'fields': [{'n': 'x', 'd': {'k': 'INTEGER', 'tags': []}, 'opt': 'O'},
                                                {'n': 'y', 'd': {'k': 'BOOLEAN', 'tags': []}, 'opt': 'D', 'dv': True}]}})
    nv = len(w['values'])
    codecs = _codecs_for(desc)
    neighbours = _gen_neighbours(r, w)
    if r.random() < 0.5:
        # all tasks through the same codec mode: interference needs two calls inside the SAME code
        # path at the same time (e.g. two decoders both reassembling fragmented strings)
        codecs = [r.choice(codecs + [c for c in codecs if 'chunk' in c] * 2)]
    tasks = []
    for ti in range(r.randrange(2, 6)):
        kind = r.choice(TASK_KINDS)
        if kind == 'native' and w['open_types']:
            # the native decoder turns a typed open-type value (e.g. the int 2147483648) into an ANY of
            # that many zero octets: a C17/C18 matter, and a 2 GiB allocation the harness must not make
            kind = 'decode'
        codec = r.choice(codecs)
        t = {'t': kind, 'codec': codec}
        if kind == 'stream':
            t['vs'] = [r.randrange(nv) for _ in range(r.randrange(1, 4))]
            w2 = dict(w, values=[w['values'][i] for i in t['vs']], codec=codec)
            total, points = common.stream_shape(w2)
            if total is None:
                t['steps'] = [['drain']]
            else:
                steps = W.gen_schedule(r, total, points, max_steps=r.choice([6, 16, 40]),
                                       faults=[f for f in ('would_block', 'short') if r.random() < 0.4],
                                       sid=ti, cid=ti)
                steps.append(['drain'])
                t['steps'] = steps
                if r.random() < 0.15:
                    t['abandon'] = r.randrange(1, len(steps) + 1)
        else:
            t['v'] = r.randrange(nv)
        tasks.append(t)
    # calls that are REFUSED alone must be refused after any history too: some decode tasks get input that
    # is not a value of T (one constrained leaf pushed outside its constraint, or stored-byte damage);
    # the input is fixed in the plan as hex
    for t in list(tasks):
        if t['t'] == 'decode' and t.get('nb') is None and r.random() < (0.6 if _has_con(desc) else 0.25):
            bad = _bad_input(r, w, t)
            if bad is not None:
                t['bad_hex'] = bad
    # resource-limit style state (depth counters, budgets) must be per call: now and then several deeply
    # nested schemaless elements are decoded side by side, each parked in the middle by its arrival plan
    if r.random() < 0.12:
        for _ in range(r.choice([1, 2, 2, 3])):
            depth = r.choice([20, 45, 70, 95])
            indef = r.random() < 0.5
            total = len(deep_bytes(depth, indef))
            cut = r.choice([total // 2, total // 2 + 1, 2 * depth, total - 3])
            steps = [['deliver', 0, max(1, min(total - 1, cut))], ['poll', 0], ['poll', 0], ['drain']]
            tasks.append({'t': 'deep', 'codec': 'ber', 'depth': depth, 'indef': indef, 'steps': steps})
    # the same through the one-shot entry point, nested beyond what the interpreter's recursion limit lets the
    # decoder descend into (the call fails, with or without its tail): whatever the entry point does about that
    # must not outlive the call
    if r.random() < 0.06:
        for _ in range(r.choice([1, 2])):
            depth = r.choice([600, 900, 1500])
            b = deep_bytes(depth, r.random() < 0.5)
            if r.random() < 0.6:
                # cut after so many headers that the descent ends either far below or far beyond the recursion
                # limit: where exactly a call in between overflows depends on how deep its caller already is
                b = b[:_header_offset(b, r.choice([60, 120, 500, 550]))]
            tasks.insert(r.randrange(len(tasks) + 1),
                         {'t': 'decode', 'codec': r.choice(['ber', 'cer', 'der']), 'v': 0, 'bad_hex': b.hex(), 'nospec': True})
    # calls on colliding neighbour types take part in the same history / interleaving
    for k, nb in enumerate(neighbours):
        for _ in range(r.choice([1, 1, 2])):
            codec = r.choice(codecs if not U.has_kind(nb['desc'], U.CHARS + U.TIMES) else [c for c in codecs if 'chunk' not in c] or ['ber'])
            t = {'t': r.choice(['encode', 'decode', 'decode']), 'codec': codec, 'v': r.randrange(len(nb['values'])), 'nb': k}
            tasks.insert(r.randrange(len(tasks) + 1), t)
    for ti, t in enumerate(tasks):          # stream/consumer ids follow the task index
        for st in t.get('steps', []):
            if st[0] in ('deliver', 'arm', 'close', 'poll') and len(st) > 1:
                st[1] = ti
    mode = r.choice(['history', 'generators', 'generators', 'threads', 'threads'])
    if mode == 'threads' and any(t.get('nospec') for t in tasks):
        # calls that run into the recursion limit stay out of the baton-passed threads: the scheduler's trace
        # function runs on the same stack, and a thread that overflows inside it never hands the baton back
        mode = 'generators'
    sched = {'mode': mode}
    n = len(tasks)
    if mode == 'history':
        order = []
        # now and then a long history: whatever counts calls must not change what the 33rd or the 70th returns
        for _ in range(r.randrange(1, 4) if r.random() < 0.97 else r.choice([12, 20, 34])):
            perm = list(range(n))
            r.shuffle(perm)
            order += perm
        sched['order'] = order
    elif mode == 'generators':
        weights = []
        for ti, t in enumerate(tasks):
            weights += [ti] * (len(t.get('steps', [])) + 1)
        r.shuffle(weights)
        sched['interleave'] = weights
    else:
        sw = []
        at = 0
        for _ in range(r.choice([5, 40, 200])):
            at += r.choice([1, 1, 2, 3, 10, 50, 200, 1000])
            sw.append([at, r.randrange(8)])
        sched['switches'] = sw
    return {'check': ID, 'workload': {'desc': desc, 'values': w['values'], 'open_types': w['open_types'],
                                      'style': w.get('style')},
            'neighbours': neighbours, 'tasks': tasks, 'schedule': sched,
            'open_types_dict': (r.choice(['full', 'partial', 'partial', 'empty']) if (w['open_types'] and r.random() < 0.6) else None),
            'logging': (r.choice(['all', 'all', 'decoder', 'encoder', 'toggle']) if r.random() < 0.3 else False),
            'isolation': 'fork' if r.random() < 0.02 else 'inproc'}


# ---------------------------------------------------------------------------
# contexts and task bodies

class Ctx(object):
    def __init__(self, wdesc, values, only=None, style=None):
        self.desc = wdesc
        prev = U.STYLE[0]
        U.STYLE[0] = style
        try:
            self.schema = U.build_schema(wdesc)
        finally:
            U.STYLE[0] = prev
        # an isolated reference context holds only what its one task needs: building the other values
        # would already be "a history of other calls" on the schema (constraint objects see them)
        self.values = [U.build_value(self.schema, wdesc, v) if (only is None or i in only) else None
                       for i, v in enumerate(values)]
        self.open_dict = None
        self.open_snapshot = None

    def make_open_dict(self, how):
        """A caller-supplied openTypes= mapping (configuration shared by the calls of a run): the entries of
        the first open-type field's own map, all of them or all but one, or an empty dict."""
        entries = _open_entries(self.desc)
        if how == 'empty' or not entries:
            self.open_dict = {}
        else:
            if how == 'partial' and len(entries) > 1:
                entries = entries[:-1]
            self.open_dict = dict((key, U.build_schema(d)) for key, d in entries)
        self.open_snapshot = sorted((repr(k), id(v)) for k, v in self.open_dict.items())

    def open_dict_moved(self):
        return self.open_dict is not None and \
            sorted((repr(k), id(v)) for k, v in self.open_dict.items()) != self.open_snapshot


def _open_entries(desc):
    if desc['k'] in ('SEQ', 'SET'):
        for f in desc['fields']:
            if f.get('open'):
                return [(key, d) for key, d in f['open']['map']]
    for c in U.children(desc):
        e = _open_entries(c)
        if e:
            return e
    return []


def _workloads(plan):
    """[main workload, neighbour 0, neighbour 1, ...] as (desc, values, style) triples."""
    w = plan['workload']
    return [(w['desc'], w['values'], w.get('style'))] + \
        [(n['desc'], n['values'], n.get('style')) for n in plan.get('neighbours', [])]


def _slot(task):
    return 0 if task.get('nb') is None else 1 + task['nb']


def _ekey(task, v):
    return '%d|%d|%s' % (_slot(task), v, task['codec'])


def _fresh_ctx(plan, task):
    desc, values, style = _workloads(plan)[_slot(task)]
    only = (task['v'],) if task['t'] in ('encode', 'print', 'native') else ()
    return Ctx(desc, values, only=only, style=style)


# The process as it was before any codec call ran in it (captured at import, below).  restore() is the
# simulator's process-restart fault: every enumerated process-global container of pyasn1 gets its pristine
# content back, so that what runs next runs "in a fresh process" as far as that state goes.
_PRISTINE = [None]
_RESTARTS = {'n': 0, 'discarded': 0}


_INTERP_LEAKS = []


def _restart():
    _RESTARTS['n'] += 1
    if _PRISTINE[0] is not None and globalstate.restore(_PRISTINE[0]):
        _RESTARTS['discarded'] += 1
    if _PRISTINE[0] is not None and globalstate.interp_config() != _PRISTINE[0].interp:
        # a fresh process also has the interpreter's own configuration back (what an earlier call left behind
        # must not decide the next one); what was found is remembered for the oracle of the running plan
        _INTERP_LEAKS.append(globalstate.interp_config())
        globalstate.restore_interp(_PRISTINE[0].interp)


def _dec_kw(plan, task=None, ctx=None):
    if task is not None and task.get('nb') is not None:
        return {}
    if not plan['workload'].get('open_types'):
        return {}
    kw = {'decodeOpenTypes': True}
    if plan.get('open_types_dict') and ctx is not None:
        if ctx.open_dict is None:
            ctx.make_open_dict(plan['open_types_dict'])
        kw['openTypes'] = ctx.open_dict
    return kw


def _outcome_exc(e):
    return ['err', type(e).__name__]


class OneShot(object):
    """encode / decode / print / native: runs in one step."""

    def __init__(self, ti, task, ctx, encs, plan, trace):
        self.ti, self.task, self.ctx, self.encs, self.plan, self.trace = ti, task, ctx, encs, plan, trace
        self.done = False
        self.outcome = None
        self.result_obj = None

    def step(self):
        self.outcome = self._run()
        self.done = True
        self.trace.append(['task', self.ti, self.task['t'], self.outcome[0]])
        return False

    def run_all(self):
        self.step()
        return self.outcome

    def _run(self):
        t = self.task
        enc, dec, opts = U.codec(t['codec'])
        try:
            if t['t'] == 'encode':
                return ['ok', enc.encode(self.ctx.values[t['v']], **opts).hex()]
            if t['t'] == 'decode':
                data = t.get('bad_hex') or self.encs.get(_ekey(t, t['v']))
                if data is None:
                    return ['skip', 'no-encoding']
                if t.get('nospec'):
                    v, rest = dec.decode(bytes.fromhex(data))
                    return ['ok', _deep_summary(v), bytes(rest).hex()]
                v, rest = dec.decode(bytes.fromhex(data), asn1Spec=self.ctx.schema, **_dec_kw(self.plan, t, self.ctx))
                self.result_obj = v
                return ['ok', U.jsonable(U.absval(v)), bytes(rest).hex()]
            if t['t'] == 'print':
                v = self.ctx.values[t['v']]
                out = [v.prettyPrint(), str(v)[:200], U.safe_repr(v, 200)]
                if isinstance(v, (U.p.univ.SequenceOf, U.p.univ.SetOf)):
                    out.append(len([x for x in v]))
                elif isinstance(v, (U.p.univ.Sequence, U.p.univ.Set)):
                    out.append(sorted(str(k) for k in v))
                # a read-only perturbation for the other tasks; what printing shows may
                # legitimately depend on lazily instantiated DEFAULT components, so the
                # text itself is not compared
                return ['ok', len(out)]
            if t['t'] == 'native':
                from pyasn1.codec.native import encoder as nenc, decoder as ndec
                py = nenc.encode(self.ctx.values[t['v']])
                back = ndec.decode(py, asn1Spec=self.ctx.schema)
                self.result_obj = back
                return ['ok', U.safe_repr(py, 400), U.jsonable(U.absval(back))]
        except Exception as e:
            return _outcome_exc(e)
        return ['skip', 'unknown']


class StreamTask(object):
    """Streaming decode over its own SimFile, advanced one sub-plan step at a time."""

    def __init__(self, ti, task, ctx, encs, plan, trace, inject=False):
        self.ti, self.task, self.ctx, self.plan, self.trace = ti, task, ctx, plan, trace
        # consumer crash: the first attempt is abandoned (its generator closed) after this many own steps
        # and the same decode is started afresh; injected in the shared run only
        self.abandon_after = task.get('abandon') if inject else None
        self.steps_done = 0
        self.crashes = 0
        self._setup(encs)

    def _setup(self, encs):
        ti, task, ctx, plan, trace = self.ti, self.task, self.ctx, self.plan, self.trace
        self._encs = encs
        enc, dec, opts = U.codec(task['codec'])
        if task['t'] == 'deep':
            # a deeply nested schemaless element: many decoder frames are parked while other tasks run
            self.ok = True
            self.content = deep_bytes(task['depth'], task['indef'])
            spec, kw = None, {}
        else:
            parts = [encs.get(_ekey(task, v)) for v in task['vs']]
            self.ok = all(x is not None for x in parts)
            self.content = b''.join(bytes.fromhex(x) for x in parts) if self.ok else b''
            spec, kw = ctx.schema, _dec_kw(plan, task, ctx)
        self.st = streams.SimFile(self.content, ti, trace)
        self.cons = W.Consumer(dec, self.st, spec, kw, cid=ti, trace=trace)
        self.pending = [list(s) for s in task['steps']]
        self.kinds = []
        self.objs = []
        self.result_objs = []
        self.end = None
        self.done = not self.ok
        self.outcome = ['skip', 'no-encoding'] if not self.ok else None
        self.drain_left = None

    def _poll(self):
        kind, payload, starved = self.cons.poll()
        self.kinds.append(kind)
        if kind == W.OBJ:
            if self.task['t'] == 'deep':
                self.objs.append(_deep_summary(payload))     # nesting depth and leaf; not kept for the aliasing probe
            else:
                self.objs.append(U.jsonable(U.absval(payload)))
                self.result_objs.append(payload)
        elif kind == W.STOP:
            self._finish('STOP')
        elif kind == W.ERR:
            self._finish(type(payload).__name__)
        elif kind in (W.NONE, W.OTHER):
            self._finish('BAD-YIELD')

    def _finish(self, end):
        self.end = end
        self.done = True
        self.outcome = ['ok', self.objs, self.kinds, end]

    def step(self):
        """One step of the own sub-plan; returns True while more remains."""
        if self.done:
            return False
        if self.abandon_after is not None and self.steps_done >= self.abandon_after:
            self.abandon_after = None
            self.crashes += 1
            self.trace.append(['crash', self.ti, self.steps_done])
            try:
                self.cons.it.close()        # the consumer goes away in the middle of whatever it was decoding
            except BaseException as e:      # noqa -- closing a suspended decoder must not raise
                self.kinds.append('CLOSE-RAISED:%s' % type(e).__name__)
                self._finish('CLOSE-RAISED')
                return False
            self._setup(self._encs)         # ... and a new consumer starts the same decode from the beginning
            return not self.done
        self.steps_done += 1
        if self.drain_left is not None:
            if self.drain_left <= 0:
                self._finish('NO-STOP')
                return False
            self.drain_left -= 1
            self._poll()
            return not self.done
        if not self.pending:
            self._finish('PLAN-END')
            return False
        s = self.pending.pop(0)
        if s[0] == 'poll':
            self._poll()
        elif s[0] == 'drain':
            self.st.deliver_all()
            self.st.disarm()
            self.st.close_stream()
            self.drain_left = len(self.task.get('vs', [0])) + 3
        else:
            W.apply_step(s, self.st)
        return not self.done

    def run_all(self):
        while self.step():
            pass
        return self.outcome


def _deep_summary(obj):
    n = 0
    while isinstance(obj, (U.p.univ.Sequence, U.p.univ.SequenceOf)) and n < 1000:
        if len(obj) != 1:
            return ['deep', n, 'len=%d' % len(obj)]
        obj = obj.getComponentByPosition(0)
        n += 1
    return ['deep', n, U.safe_repr(obj, 60)]


def deep_bytes(depth, indef):
    """depth nested SEQUENCEs around one INTEGER, written by the independent TLV writer."""
    b = tlv.tlv(0, False, 2, b'\x05')
    for i in range(depth):
        if indef and i % 2 == 0:
            b = b'\x30\x80' + b + b'\x00\x00'
        else:
            b = tlv.tlv(0, True, 16, b)
    return b


def _header_offset(b, n):
    """Offset just behind the n-th nested header of deep_bytes()."""
    pos = 0
    for _ in range(n):
        lo = b[pos + 1]
        pos += 2 + ((lo & 0x7f) if (lo & 0x80 and lo != 0x80) else 0)
    return pos


def make_task(ti, task, ctx, encs, plan, trace, inject=False):
    if task['t'] in ('stream', 'deep'):
        return StreamTask(ti, task, ctx, encs, plan, trace, inject=inject)
    return OneShot(ti, task, ctx, encs, plan, trace)


# ---------------------------------------------------------------------------
# isolation

def _encodings(plan):
    """Encodings every decode/stream task needs, produced from FRESH objects, each in a restarted process."""
    out = {}
    need = set()
    for t in plan['tasks']:
        if t['t'] == 'decode':
            need.add((_slot(t), t['v'], t['codec']))
        elif t['t'] == 'stream':
            for v in t['vs']:
                need.add((_slot(t), v, t['codec']))
    wls = _workloads(plan)
    for slot, v, codec in sorted(need):
        try:
            _restart()
            ctx = Ctx(wls[slot][0], wls[slot][1], only=(v,), style=wls[slot][2])
            enc, dec, opts = U.codec(codec)
            out['%d|%d|%s' % (slot, v, codec)] = enc.encode(ctx.values[v], **opts).hex()
        except Exception:
            pass
    return out


def isolated_outcomes_inproc(plan):
    """Each task alone, on fresh objects, in this process restarted before each task."""
    encs = _encodings(plan)
    outs = []
    for ti, task in enumerate(plan['tasks']):
        try:
            _restart()
            ctx = _fresh_ctx(plan, task)
            outs.append(make_task(ti, task, ctx, encs, plan, []).run_all())
        except Exception as e:
            outs.append(['harness', type(e).__name__, str(e)[:100]])
    return encs, json.loads(json.dumps(outs))


# A change of module-level state is not a violation by itself (a memo cache of immutable results is
# harmless); it is a reason to look.  The probe: a fixed catalogue of codec calls over types that collide
# in everything a careless cache could be keyed by (same first identifier octet, same tag number under
# different classes/base types, long tags, same type ids) is evaluated once per process before anything
# else ran, and again whenever the state digest moved; the outcomes must be the same.
_CAT = [
    ({'k': 'INTEGER', 'tags': []}, 5, 'ber'),
    ({'k': 'INTEGER', 'tags': [['I', 'C', 0]]}, 5, 'ber'),
    ({'k': 'OCTETSTRING', 'tags': [['I', 'C', 0]]}, '0500', 'ber'),
    ({'k': 'BOOLEAN', 'tags': [['I', 'C', 0]]}, True, 'der'),
    ({'k': 'SEQ', 'tags': [], 'fields': [{'n': 'a', 'd': {'k': 'INTEGER', 'tags': [['I', 'C', 0]]}, 'opt': 'R'},
                                        {'n': 'b', 'd': {'k': 'UTF8', 'tags': [['E', 'C', 1]]}, 'opt': 'O'}]}, {'a': 1, 'b': 'x'}, 'ber-indef'),
    ({'k': 'SEQ', 'tags': [], 'fields': [{'n': 'a', 'd': {'k': 'OCTETSTRING', 'tags': [['I', 'C', 0]]}, 'opt': 'R'},
                                        {'n': 'b', 'd': {'k': 'NULL', 'tags': [['E', 'C', 1]]}, 'opt': 'O'}]}, {'a': '01', 'b': ''}, 'cer'),
    ({'k': 'SET', 'tags': [['I', 'A', 31]], 'fields': [{'n': 'a', 'd': {'k': 'INTEGER', 'tags': [['I', 'P', 1000]]}, 'opt': 'R'}]}, {'a': -1}, 'der'),
    ({'k': 'SEQOF', 'tags': [['I', 'A', 31]], 'of': {'k': 'OID', 'tags': []}}, [[1, 3, 6]], 'ber'),
    ({'k': 'CHOICE', 'tags': [], 'alts': [['x', {'k': 'INTEGER', 'tags': [['I', 'C', 0]]}], ['y', {'k': 'BITSTRING', 'tags': [['I', 'C', 1]]}]]}, ['y', '101'], 'ber'),
    ({'k': 'CHOICE', 'tags': [], 'alts': [['x', {'k': 'BITSTRING', 'tags': [['I', 'C', 0]]}], ['y', {'k': 'INTEGER', 'tags': [['I', 'C', 1]]}]]}, ['y', 7], 'cer'),
    ({'k': 'OCTETSTRING', 'tags': [['E', 'P', 1000]]}, 'ab' * 5, 'ber-chunk:2'),
    ({'k': 'REAL', 'tags': []}, 1.5, 'der'),
    ({'k': 'OCTETSTRING', 'tags': [['I', 'P', 40]]}, '0a', 'ber'),
    ({'k': 'INTEGER', 'tags': [['E', 'P', 40]]}, 5, 'ber'),
    ({'k': 'BOOLEAN', 'tags': [['I', 'C', 16384]]}, False, 'cer'),
    ({'k': 'SEQ', 'tags': [['I', 'C', 16384]], 'fields': [{'n': 'a', 'd': {'k': 'NULL', 'tags': []}, 'opt': 'R'}]}, {'a': ''}, 'cer'),
]
_CAT_REF = [None]


def _fork_eval(fn):
    """Evaluate fn() in a forked child and return its JSON-able result."""
    rfd, wfd = os.pipe()
    pid = os.fork()
    if pid == 0:
        code = 0
        try:
            os.close(rfd)
            data = json.dumps(fn()).encode()
            with os.fdopen(wfd, 'wb') as f:
                f.write(data)
        except BaseException:
            code = 3
        finally:
            os._exit(code)
    os.close(wfd)
    with os.fdopen(rfd, 'rb') as f:
        data = f.read()
    _, status = os.waitpid(pid, 0)
    if status != 0:
        raise RuntimeError('fork_eval child failed: %r' % (status,))
    return json.loads(data.decode())


def _catalogue_reference():
    """Each catalogue item alone, in its own forked child of the still-clean process."""
    return [_fork_eval(lambda i=i: _catalogue_outcomes([i])[0]) for i in range(len(_CAT))]


def _catalogue_outcomes(only=None):
    out = []
    for idx, (desc, pv, codec) in enumerate(_CAT):
        if only is not None and idx not in only:
            continue
        try:
            sch = U.build_schema(desc)
            val = U.build_value(sch, desc, pv)
            enc, dec, opts = U.codec(codec)
            e = enc.encode(val, **opts)
            back, rest = dec.decode(e, asn1Spec=sch)
            objs = list(dec.StreamingDecoder(e + e, asn1Spec=sch))
            out.append([e.hex(), U.jsonable(U.absval(back)), bytes(rest).hex(), len(objs),
                        U.jsonable(U.absval(objs[-1])) if objs else None])
        except Exception as ex:
            out.append(['err', type(ex).__name__])
    return out


def _modulo_underruns(o):
    if isinstance(o, list) and len(o) >= 3 and isinstance(o[2], list):
        return o[:2] + [[x for x in o[2] if x != 'UNDERRUN']] + o[3:]
    return o


def _interp_moved(where, trace, ctr):
    """Interpreter-wide configuration (recursion limit, int-to-text limit, switch interval, warning filters)
    after the calls must be what it was before them."""
    want = _PRISTINE[0].interp
    got = globalstate.interp_config()
    if got == want and _INTERP_LEAKS:
        got = _INTERP_LEAKS[0]          # already put back by a restart in between
    del _INTERP_LEAKS[:]
    if got == want:
        return None
    globalstate.restore_interp(want)
    diff = [[a[0], b[1], a[1]] for a, b in zip(got, want) if a != b]
    v = W.Violation('interpreter-configuration-changed', where=where, changed=diff)
    return common.violation_result(v, ['interpreter-configuration-changed', where, diff[0][0], None],
                                   trace, ctr, None, None, {'kind': 'file'}, None)


def _gs_moved(plan, labels, where, trace, ctr):
    """Process-global state moved: harmless unless other calls now behave differently."""
    ctr['probe.module_state_moved.%s' % where] = 1
    now = json.loads(json.dumps(_catalogue_outcomes()))
    if now != _CAT_REF[0]:
        bad = [i for i, (a, b) in enumerate(zip(now, _CAT_REF[0])) if a != b]
        diff = list(labels)[:6]
        v = W.Violation('module-state-changed-and-affects-other-calls', where=where, catalogue_items=bad[:5],
                        got=json.dumps(now[bad[0]])[:200], want=json.dumps(_CAT_REF[0][bad[0]])[:200], state_diff=diff)
        return common.violation_result(v, ['module-state-changed-and-affects-other-calls', where, None, None],
                                       trace, ctr, None, None, {'kind': 'file'}, None)
    return None


def isolated_outcomes(plan):
    """Each task alone, on fresh objects, in a forked child.  Returns (encodings, outcomes)."""
    rfd, wfd = os.pipe()
    pid = os.fork()
    if pid == 0:
        code = 0
        try:
            os.close(rfd)
            encs = _encodings(plan)
            outs = []
            for ti, task in enumerate(plan['tasks']):
                try:
                    _restart()
                    ctx = _fresh_ctx(plan, task)
                    outs.append(make_task(ti, task, ctx, encs, plan, []).run_all())
                except Exception as e:
                    outs.append(['harness', type(e).__name__, str(e)[:100]])
            data = json.dumps({'encs': encs, 'outs': outs}).encode()
            with os.fdopen(wfd, 'wb') as f:
                f.write(data)
        except BaseException:
            code = 3
        finally:
            os._exit(code)
    os.close(wfd)
    chunks = []
    with os.fdopen(rfd, 'rb') as f:
        while True:
            b = f.read(65536)
            if not b:
                break
            chunks.append(b)
    _, status = os.waitpid(pid, 0)
    if status != 0 or not chunks:
        raise RuntimeError('isolation child failed with status %r' % (status,))
    doc = json.loads(b''.join(chunks).decode())
    return doc['encs'], doc['outs']


# ---------------------------------------------------------------------------

class Sink(object):
    def __init__(self):
        self.n = 0

    def __call__(self, msg):
        self.n += 1


def _preimport():
    """Import every pyasn1 module the tasks may touch *before* any thread runs: a
    thread parked by the scheduler in the middle of an import would hold the import
    lock and deadlock the others (a harness artefact, not a library property)."""
    for name in ('ber', 'ber-indef', 'cer', 'der'):
        U.codec(name)
    from pyasn1.codec.native import encoder, decoder   # noqa: F401
    import pyasn1.type.useful, pyasn1.type.char, pyasn1.type.opentype   # noqa: F401


def systematic(tier):
    """Every single pre-emption point of the first of two tasks: the thread-world counterpart of the
    'every split point' sweeps of the stream-world."""
    from simkit import rng
    out = []
    n = 3 if tier == 'quick' else 60
    j = 0
    while len(out) < n and j < 20 * n:
        r = rng.rng_for('C12-switch-sweep', rng.verif_seed(), j)
        j += 1
        pl = gen_plan(r, j, tier)
        tasks = [t for t in pl['tasks'] if t['t'] != 'deep' and t.get('abandon') is None][:2]
        if len(tasks) < 2 or all(t['t'] == 'print' for t in tasks):
            continue
        for ti, t in enumerate(tasks):
            for st in t.get('steps', []):
                if st[0] in ('deliver', 'arm', 'close', 'poll') and len(st) > 1:
                    st[1] = ti
        pl['tasks'] = tasks
        pl['neighbours'] = [nb for k, nb in enumerate(pl['neighbours']) if any(t.get('nb') == k for t in tasks)]
        used = sorted(set(t['nb'] for t in tasks if t.get('nb') is not None))
        for t in tasks:
            if t.get('nb') is not None:
                t['nb'] = used.index(t['nb'])
        pl['schedule'] = {'mode': 'threads', 'switches': []}
        pl['sweep_switch'] = True
        pl['max_points'] = 150 if tier == 'quick' else 600
        pl['isolation'] = 'inproc'
        pl['timeout_s'] = 1800
        pl.pop('index', None)
        out.append(pl)
    return out


SYSTEMATIC_CHUNK = 1


def _execute_switch_sweep(plan):
    base = {k: v for k, v in plan.items() if k not in ('sweep_switch', 'max_points')}
    first = execute(dict(base, schedule={'mode': 'threads', 'switches': []}))
    if first['status'] != 'ok':
        return first
    total = first['counters'].get('thread.first_finisher_steps', 0)
    if not total:
        return common.skip_result('no-steps')
    stride = max(1, -(-total // plan.get('max_points', 150)))
    agg = first
    n = 1
    for k in range(1, total + 1, stride):
        sub = dict(base, schedule={'mode': 'threads', 'switches': [[k, 0]]})
        res = execute(sub)
        n += 1
        if res['status'] == 'violation':
            res['detail'] = dict(res['detail'], switch_at=k, explicit_schedule=sub['schedule'])
            res['evals'] = n
            return res
        if res['status'] == 'skip':
            return res
        common.merge_result(agg, res)
    agg['evals'] = n
    agg['weight'] = n
    agg['counters']['probe.exhaustive_preemption_points'] = n - 1
    agg['counters']['probe.preemption_stride'] = stride
    agg['counters'].pop('thread.first_finisher_steps', None)
    return agg


def execute(plan):
    if plan.get('sweep_switch'):
        return _execute_switch_sweep(plan)
    from pyasn1 import debug
    _preimport()
    w = plan['workload']
    trace = []
    ctr = {}
    r0 = dict(_RESTARTS)
    _restart()                      # every run starts in a "fresh process"
    del _INTERP_LEAKS[:]
    try:
        ctxs = [Ctx(d_, v_, style=s_) for d_, v_, s_ in _workloads(plan)]
        ctx = ctxs[0]
        problem = U.schema_problem(ctx.schema)
    except Exception as e:
        return common.skip_result('build:%s' % type(e).__name__)
    if problem:
        return common.skip_result('schema-ill-formed')

    def mk(ti, trace_):
        task = plan['tasks'][ti]
        return make_task(ti, task, ctxs[_slot(task)], encs, plan, trace_, inject=True)

    if _CAT_REF[0] is None:
        _CAT_REF[0] = _catalogue_reference()
        # the catalogue run as one history in this process must already agree with the isolated items
        first = _catalogue_outcomes()
        if json.loads(json.dumps(first)) != _CAT_REF[0]:
            bad = [i for i, (a, b) in enumerate(zip(json.loads(json.dumps(first)), _CAT_REF[0])) if a != b]
            v = W.Violation('module-state-changed-and-affects-other-calls', where='catalogue-history', catalogue_items=bad[:5],
                            got=json.dumps(first[bad[0]])[:200], want=json.dumps(_CAT_REF[0][bad[0]])[:200])
            return common.violation_result(v, ['module-state-changed-and-affects-other-calls', 'catalogue-history', None, None],
                                           trace, ctr, None, None, {'kind': 'file'}, None)
    if plan.get('isolation') == 'fork':
        encs, iso = isolated_outcomes(plan)
    else:
        encs, iso = isolated_outcomes_inproc(plan)
    bad = _interp_moved('reference-calls', trace, ctr)
    if bad:
        return bad
    labels = globalstate.moved(_PRISTINE[0])
    if labels:
        bad = _gs_moved(plan, labels, 'reference-calls', trace, ctr)
        if bad:
            return bad
    if any(o[0] == 'harness' for o in iso):
        return common.skip_result('isolated-harness:%s' % [o for o in iso if o[0] == 'harness'][0][1])
    _restart()                      # the shared run starts in a fresh process too
    snap_nb = [(U.snapshot(c.schema), [U.snapshot(v) for v in c.values]) for c in ctxs[1:]]
    snap_schema = U.snapshot(ctx.schema)
    snap_values = [U.snapshot(v) for v in ctx.values]
    if U.snapshot(ctx.schema) != snap_schema or [U.snapshot(v) for v in ctx.values] != snap_values:
        # the snapshot only encodes (BER, DER) and compares: if taking it twice gives two
        # answers, a codec call or a comparison has changed the object it was given
        v = W.Violation('observing-changes-object', where='snapshot-twice')
        return common.violation_result(v, ['observing-changes-object', None, None, None], trace, ctr, None, None,
                                       {'kind': 'file'}, None)
    scope0 = str(debug.scope)
    sink = Sink()
    sched = plan['schedule']
    mode = sched['mode']
    overlapped = [False]
    tasks_run = []

    def check_snapshots(where):
        if U.snapshot(ctx.schema) != snap_schema:
            raise W.Violation('schema-changed', where=where)
        for i, v in enumerate(ctx.values):
            if U.snapshot(v) != snap_values[i]:
                raise W.Violation('input-value-changed', where=where, value=i)
        if ctx.open_dict_moved():
            raise W.Violation('configuration-changed', where=where, what='caller-supplied openTypes mapping')
        for k, c in enumerate(ctxs[1:]):
            if U.snapshot(c.schema) != snap_nb[k][0]:
                raise W.Violation('schema-changed', where=where, neighbour=k)
            for i, v in enumerate(c.values):
                if U.snapshot(v) != snap_nb[k][1][i]:
                    raise W.Violation('input-value-changed', where=where, value=i, neighbour=k)

    def check_outcome(ti, outcome, where):
        want = iso[ti]
        if want[0] == 'skip' or outcome is None or outcome[0] == 'skip':
            return
        if plan.get('logging') and any(st_[0] == 'arm' for st_ in plan['tasks'][ti].get('steps') or ()):
            # a logged decode reads on its own (the untagged-ANY log line peeks into the stream), so read faults
            # armed by count fall on other reads than in the unlogged reference: how many polls report an
            # underrun before an object is then not part of the outcome; objects, their order and the end are
            outcome, want = _modulo_underruns(outcome), _modulo_underruns(want)
        if outcome != want:
            raise W.Violation('outcome-differs-from-isolated', task=ti, kind=plan['tasks'][ti]['t'], where=where,
                              on_neighbour=plan['tasks'][ti].get('nb'),
                              got=json.dumps(outcome)[:300], want=json.dumps(want)[:300],
                              got_cls=_cls(outcome), want_cls=_cls(want))

    logmode = plan.get('logging')
    if logmode is True:
        logmode = 'all'
    if logmode and logmode != 'toggle':
        debug.setLogger(debug.Debug(logmode, printer=sink))
    try:
        try:
            if mode == 'history':
                for pos, ti in enumerate(sched['order']):
                    if logmode == 'toggle':
                        # the flag is flipped only between calls, when no decoder is suspended
                        debug.setLogger(debug.Debug('all', printer=sink) if pos % 2 == 0 else None)
                    t = mk(ti, trace)
                    out = t.run_all()
                    tasks_run.append(t)
                    check_outcome(ti, out, 'history@%d' % pos)
                    check_snapshots('after-task-%d@%d' % (ti, pos))
                    if pos:
                        overlapped[0] = True
            elif mode == 'generators':
                live = {}
                steps_done = 0
                started = set()
                for ti in sched['interleave']:
                    if ti not in live:
                        if ti in started:
                            continue
                        live[ti] = mk(ti, trace)
                        started.add(ti)
                        tasks_run.append(live[ti])
                    t = live[ti]
                    if len([x for x in live.values() if not x.done]) > 1:
                        overlapped[0] = True
                    more = t.step()
                    steps_done += 1
                    if t.done:
                        check_outcome(ti, t.outcome, 'interleave@%d' % steps_done)
                        check_snapshots('after-task-%d' % ti)
                        del live[ti]
                    elif steps_done % 8 == 0:
                        check_snapshots('step-%d' % steps_done)
                for ti in sorted(live):
                    out = live[ti].run_all()
                    check_outcome(ti, out, 'tail')
                for ti in range(len(plan['tasks'])):
                    if ti not in started:
                        t = mk(ti, trace)
                        tasks_run.append(t)
                        check_outcome(ti, t.run_all(), 'unscheduled')
                check_snapshots('end')
            else:
                objs = [mk(ti, trace) for ti in range(len(plan['tasks']))]
                tasks_run.extend(objs)
                sch = threads.BatonScheduler(sched['switches'], W.pyasn1_dir(), trace)
                results = sch.run([o.run_all for o in objs])
                ctr['thread.switches'] = sch.switch_count
                ctr['thread.line_steps'] = sch.step
                fin = [e for e in trace if e and e[0] == 'finish']
                if fin:
                    ctr['thread.first_finisher_steps'] = fin[0][2]
                if sch.switch_count:
                    overlapped[0] = True
                for ti, res in enumerate(results):
                    if res[0] == 'exc':
                        d = W.describe_exc(res[1])
                        raise W.Violation('task-raised-outside-codec', task=ti, exc_cls=d['cls'], msg=d['msg'], site=d['site'])
                    check_outcome(ti, res[1], 'threads')
                check_snapshots('end')
            # (d) scope depth, only when every call completed normally
            # (an abandoned decoder, like a raising call, leaves its entries on the scope stack: that only
            # changes the prefix of later log lines, not any outcome, and is not demanded here)
            if all(t.outcome and t.outcome[0] == 'ok' and (len(t.outcome) < 4 or t.outcome[3] == 'STOP')
                   and not getattr(t, 'crashes', 0) for t in tasks_run):
                if str(debug.scope) != scope0:
                    raise W.Violation('debug-scope-leak', scope=str(debug.scope)[:120], initial=scope0[:60])
            # (c) aliasing probe
            _aliasing_probe(ctx, tasks_run, snap_schema, snap_values)
        except W.Violation as v:
            sig = [v.invariant, v.detail.get('kind'), v.detail.get('got_cls'), v.detail.get('want_cls')]
            v.detail['mode'] = mode
            v.detail['logging'] = bool(plan.get('logging'))
            res = common.violation_result(v, sig, trace, ctr, None, None, {'kind': 'file'}, None)
            return res
    finally:
        if plan.get('logging'):
            debug.setLogger(None)
            for _ in range(10000):          # unwind whatever failed calls left on the scope stack
                if not str(debug.scope):
                    break
                try:
                    debug.scope.pop()
                except Exception:
                    break
    bad = _interp_moved('shared-run', trace, ctr)
    if bad:
        return bad
    labels = globalstate.moved(_PRISTINE[0])
    if labels:
        bad = _gs_moved(plan, labels, 'shared-run', trace, ctr)
        if bad:
            return bad
    ctr['mode.%s' % mode] = 1
    ctr['fault.process_restart'] = _RESTARTS['n'] - r0['n']
    ctr['fault.process_restart.discarded_state'] = _RESTARTS['discarded'] - r0['discarded']
    if plan.get('open_types_dict'):
        ctr['config.openTypes.%s' % plan['open_types_dict']] = 1
    if plan.get('neighbours'):
        ctr['probe.neighbour_types'] = len(plan['neighbours'])
        ctr['task.on_neighbour'] = len([t for t in plan['tasks'] if t.get('nb') is not None])
    ctr['isolation.%s' % plan.get('isolation', 'inproc')] = 1
    ctr['logging.%s' % (logmode or 'off')] = 1
    if plan.get('logging'):
        ctr['log.messages'] = sink.n
    for t in plan['tasks']:
        ctr['task.%s' % t['t']] = ctr.get('task.%s' % t['t'], 0) + 1
        if t.get('bad_hex'):
            ctr['task.decode.not-a-value-input'] = ctr.get('task.decode.not-a-value-input', 0) + 1
    crashes = sum(getattr(t, 'crashes', 0) for t in tasks_run)
    if crashes:
        ctr['fault.consumer_crash'] = crashes
    if overlapped[0]:
        ctr['probe.tasks_overlapped'] = 1
    res = common.ok_result(trace, ctr, None, overlapped[0])
    res['evals'] = len(tasks_run)
    return res


def _cls(o):
    if o and o[0] == 'err':
        return o[1]
    if o and len(o) >= 4:
        return o[3]
    return o[0] if o else None


def _constructed_nodes(obj, out, depth=0):
    univ = U.p.univ
    if depth > 8 or not isinstance(obj, U.p.base.Asn1Item):
        return
    if isinstance(obj, (univ.SequenceOf, univ.SetOf, univ.Sequence, univ.Set, univ.Choice)):
        out.append(obj)
        try:
            n = len(obj) if not isinstance(obj, (univ.Sequence, univ.Set)) or isinstance(obj, univ.Choice) \
                else len(obj.componentType)
        except Exception:
            n = 0
        if isinstance(obj, univ.Choice):
            try:
                _constructed_nodes(obj.getComponent(), out, depth + 1)
            except Exception:
                pass
            return
        for i in range(n):
            try:
                c = obj.getComponentByPosition(i, default=None, instantiate=False)
            except Exception:
                c = None
            if c is not None:
                _constructed_nodes(c, out, depth + 1)


def _der_outcome(obj):
    from pyasn1.codec.der import encoder
    try:
        return encoder.encode(obj).hex()
    except Exception as e:
        return 'raises:' + type(e).__name__


def _aliasing_probe(ctx, tasks_run, snap_schema, snap_values):
    results = []
    for t in tasks_run:
        if getattr(t, 'result_obj', None) is not None:
            results.append(t.result_obj)
        results.extend(getattr(t, 'result_objs', []))
    results = [r_ for r_ in results if isinstance(r_, U.p.base.Asn1Item)][:6]
    if not results:
        return
    for ai, a in enumerate(results):
        others = [(bi, b) for bi, b in enumerate(results) if b is not a]
        before = [U.snapshot(b) for _, b in others]
        nodes = []
        _constructed_nodes(a, nodes)
        # what an application does with a decoded result: read its components (which instantiates
        # absent DEFAULT/OPTIONAL slots from the schema) and edit them in place
        for node in list(nodes):
            if isinstance(node, (U.p.univ.Sequence, U.p.univ.Set)) and not isinstance(node, U.p.univ.Choice):
                for i in range(len(node.componentType)):
                    try:
                        c = node.getComponentByPosition(i)
                    except Exception:
                        continue
                    if isinstance(c, (U.p.univ.SequenceOf, U.p.univ.SetOf, U.p.univ.Sequence, U.p.univ.Set)) and \
                            not any(c is n_ for n_ in nodes):
                        nodes.append(c)
        for node in reversed(nodes):
            try:
                if isinstance(node, (U.p.univ.SequenceOf, U.p.univ.SetOf)) and node.componentType is not None:
                    node.setComponentByPosition(len(node))        # in-place growth of the component store
                    if len(node) > 1:
                        node.setComponentByPosition(0, node.getComponentByPosition(len(node) - 2))
            except Exception:
                pass
        if U.snapshot(ctx.schema) != snap_schema:
            raise W.Violation('result-aliases-schema', result=ai, how='in-place edit')
        for i, v in enumerate(ctx.values):
            if U.snapshot(v) != snap_values[i]:
                raise W.Violation('result-aliases-input', result=ai, value=i, how='in-place edit')
        for (bi, b), sb in zip(others, before):
            if U.snapshot(b) != sb:
                raise W.Violation('results-alias-each-other', result=ai, other=bi, how='in-place edit')
        for node in reversed(nodes):
            try:
                node.clear()
            except Exception:
                pass
        if U.snapshot(ctx.schema) != snap_schema:
            raise W.Violation('result-aliases-schema', result=ai)
        for i, v in enumerate(ctx.values):
            if U.snapshot(v) != snap_values[i]:
                raise W.Violation('result-aliases-input', result=ai, value=i)
        # a decoded collection that was emptied is an empty collection: it must encode (or be refused) exactly
        # like an empty one built by hand -- a result must not carry hidden state from the call that made it
        if isinstance(a, (U.p.univ.SequenceOf, U.p.univ.SetOf)) and type(a) is type(ctx.schema) and \
                a.tagSet == ctx.schema.tagSet:
            fresh = ctx.schema.clone()
            fresh.clear()
            if _der_outcome(a) != _der_outcome(fresh):
                raise W.Violation('result-carries-hidden-state', result=ai, got=U.safe_repr(_der_outcome(a), 80),
                                  want=U.safe_repr(_der_outcome(fresh), 80))
        for (bi, b), sb in zip(others, before):
            if U.snapshot(b) != sb:
                raise W.Violation('results-alias-each-other', result=ai, other=bi)


def shrink_candidates(plan, detail=None):
    if plan.get('sweep_switch'):
        if detail and detail.get('explicit_schedule'):
            c = {k: v for k, v in plan.items() if k not in ('sweep_switch', 'max_points')}
            c['schedule'] = detail['explicit_schedule']
            yield c
        return
    tasks = plan['tasks']
    sched = plan['schedule']
    # drop a task (renumber the schedule)
    if len(tasks) > 1:
        for i in range(len(tasks)):
            c = copy.deepcopy(plan)
            del c['tasks'][i]

            def ren(x):
                return x - 1 if x > i else x
            s = c['schedule']
            if 'order' in s:
                s['order'] = [ren(x) for x in s['order'] if x != i]
            if 'interleave' in s:
                s['interleave'] = [ren(x) for x in s['interleave'] if x != i]
            for ti, t in enumerate(c['tasks']):
                for st in t.get('steps', []):
                    if st[0] in ('deliver', 'arm', 'close', 'poll') and len(st) > 1:
                        st[1] = ti
            yield c
    for k in range(len(plan.get('neighbours', []))):
        if not any(t.get('nb') == k for t in tasks):
            c = copy.deepcopy(plan)
            del c['neighbours'][k]
            for t in c['tasks']:
                if t.get('nb') is not None and t['nb'] > k:
                    t['nb'] -= 1
            yield c
    if plan.get('logging'):
        c = copy.deepcopy(plan)
        c['logging'] = False
        yield c
    for key in ('order', 'interleave', 'switches'):
        if key in sched and len(sched[key]) > 1:
            seq = sched[key]
            n = len(seq)
            size = n // 2
            while size >= 1:
                for lo in range(0, n, size):
                    c = copy.deepcopy(plan)
                    c['schedule'][key] = seq[:lo] + seq[lo + size:]
                    yield c
                size //= 2
    if sched['mode'] != 'history':
        c = copy.deepcopy(plan)
        c['schedule'] = {'mode': 'history', 'order': list(range(len(tasks)))}
        yield c
    for ti, t in enumerate(tasks):
        if t.get('abandon') is not None:
            c = copy.deepcopy(plan)
            del c['tasks'][ti]['abandon']
            yield c
        if t.get('steps') and len(t['steps']) > 1:
            c = copy.deepcopy(plan)
            c['tasks'][ti]['steps'] = [['drain']]
            yield c
        if t['codec'] != 'ber':
            c = copy.deepcopy(plan)
            c['tasks'][ti]['codec'] = 'ber'
            yield c
    w = plan['workload']
    for k, nb in enumerate(plan.get('neighbours', [])):
        for nd, nvs in common.shrink_desc_values(nb['desc'], nb['values']):
            c = copy.deepcopy(plan)
            c['neighbours'][k]['desc'] = nd
            c['neighbours'][k]['values'] = nvs
            yield c
    for nd, nvs in common.shrink_desc_values(w['desc'], w['values']):
        c = copy.deepcopy(plan)
        c['workload']['desc'] = nd
        c['workload']['values'] = nvs
        c['workload']['open_types'] = U.has_open(nd)
        yield c


# the pristine process state: captured once, at import, before any codec call of this process
_preimport()
_PRISTINE[0] = globalstate.capture()
