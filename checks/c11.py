"""C11 -- decoding result does not depend on the kind of input object; the seek-back
wrapper refines a seekable stream.

Part A: same bytes through every substrate kind, outcome must equal the outcome on
`bytes`.  Part B: the real CachingStreamWrapper over a non-seekable double, driven
through a seeded operation history, against a reference model (bytes + position +
mark), step by step.
"""
import copy
import glob
import gzip
import io
import os
import shutil
import tempfile
import zipfile

from simkit import budget, corrupt, plan as P, streams, tlv, universe as U, world as W
from checks import common

ID = 'C11'
LEVEL = 'exploration'
TIERS = {"quick": 20000, "thorough": 1200000}
BUDGET = {'quick': 150, 'thorough': 1500}
RULE = ('seeded plans, two parts. A: a byte string (valid stream of 1-3 encodings, a corrupted one, or a wide/deep/over-threshold '
        'container) decoded one-shot and by full StreamingDecoder iteration through 11 substrate kinds with a per-run drop-threshold '
        'knob; outcome (values, remainder, exception class) compared with the outcome on bytes. B: 5-60 operations '
        '(read/peek/seek-back/set-mark/tell, with short and would-block reads of the raw source) on the real CachingStreamWrapper '
        'against a reference model. non-trivial: (A) at least one non-bytes kind produced a value or an error after reading > 0 '
        'bytes; (B) at least one backward seek or cache drop happened. distinct = distinct plan digests among those')
ASSUMPTIONS = [
    'outcome on bytes is the reference (differential oracle)',
    'wrapper positions are compared modulo the renumbering at mark points that upstream testMarkedPositionResets pins',
    'real files / gzip / zip readers are created in a private temporary directory that is removed at the end of the run',
]
REAL = ['pyasn1.codec.streaming (asSeekableStream, CachingStreamWrapper, readFromStream, isEndOfStream)',
        'pyasn1.codec.{ber,cer,der}.decoder', 'CPython io.BytesIO, open(), gzip, zipfile, io.BufferedReader']
STUB = ['SimPipe / SimFile / RawPipe doubles', 'reference model of a seekable stream (bytes + position + mark)']

KINDS = ['bytesio', 'octetstring', 'any', 'file', 'rawfile', 'gzip', 'zip', 'bz2', 'lzma', 'buffered-pipe', 'os-pipe', 'simpipe',
         'simfile', 'wrapped-simpipe']


# ---------------------------------------------------------------------------
# scratch files

_TMP = [None]


def _prefix():
    return os.path.join(tempfile.gettempdir(), 'verif-c11-%s-' % os.environ.get('VERIF_MAIN_PID', 'x'))


def _tmpdir():
    if _TMP[0] is None or _TMP[0][0] != os.getpid():
        d = tempfile.mkdtemp(prefix=_prefix())
        _TMP[0] = (os.getpid(), d)
        try:
            import multiprocessing.util as mu
            mu.Finalize(None, shutil.rmtree, args=(d, True), exitpriority=1)
        except Exception:
            pass
    return _TMP[0][1]


def teardown():
    for d in glob.glob(_prefix() + '*'):
        shutil.rmtree(d, True)


class RawPipe(io.RawIOBase):
    """Non-seekable raw stream with complete reads, for io.BufferedReader."""

    def __init__(self, data):
        io.RawIOBase.__init__(self)
        self._d = bytes(data)
        self._p = 0

    def readable(self):
        return True

    def seekable(self):
        return False

    def readinto(self, buf):
        n = min(len(buf), len(self._d) - self._p)
        buf[:n] = self._d[self._p:self._p + n]
        self._p += n
        return n


class Opened(object):
    def __init__(self, sub, closers=()):
        self.sub = sub
        self.closers = closers

    def close(self):
        for c in self.closers:
            try:
                c.close()
            except Exception:
                pass


def open_kind(kind, b, bufsize=None):
    if kind == 'bytes':
        return Opened(bytes(b))
    if kind == 'bytesio':
        return Opened(io.BytesIO(b))
    if kind == 'octetstring':
        return Opened(U.p.univ.OctetString(b))
    if kind == 'any':
        return Opened(U.p.univ.Any(b))
    if kind == 'simpipe' or kind == 'wrapped-simpipe':
        st = streams.SimPipe(b)
        st.deliver_all()
        st.close_stream()
        if kind == 'wrapped-simpipe':
            from pyasn1.codec import streaming
            return Opened(streaming.CachingStreamWrapper(st))
        return Opened(st)
    if kind == 'simfile':
        st = streams.SimFile(b)
        st.deliver_all()
        st.close_stream()
        return Opened(st)
    if kind == 'buffered-pipe':
        return Opened(io.BufferedReader(RawPipe(b), buffer_size=bufsize or 16))
    if kind == 'os-pipe':
        # a real kernel pipe: non-seekable, blocking; everything is written and the write end
        # closed before the decoder reads, so what the reader sees does not depend on timing
        if len(b) > 60000:
            return Opened(io.BufferedReader(RawPipe(b), buffer_size=4096))
        rfd, wfd = os.pipe()
        os.write(wfd, b)
        os.close(wfd)
        fh = os.fdopen(rfd, 'rb', buffering=0)
        return Opened(fh, (fh,))
    d = _tmpdir()
    if kind == 'rawfile':
        # an unbuffered binary file (io.FileIO): seekable, every read a system call
        path = os.path.join(d, 'r.bin')
        with open(path, 'wb') as f:
            f.write(b)
        fh = open(path, 'rb', buffering=0)
        return Opened(fh, (fh,))
    if kind == 'file':
        path = os.path.join(d, 'f.bin')
        with open(path, 'wb') as f:
            f.write(b)
        # an application may open its file with any buffer size; refills then fall on other offsets
        fh = open(path, 'rb') if not bufsize else open(path, 'rb', buffering=bufsize)
        return Opened(fh, (fh,))
    if kind == 'gzip':
        path = os.path.join(d, 'f.gz')
        with gzip.open(path, 'wb', compresslevel=1) as f:
            f.write(b)
        fh = gzip.open(path, 'rb')
        return Opened(fh, (fh,))
    if kind in ('bz2', 'lzma'):
        import importlib
        mod = importlib.import_module(kind)
        path = os.path.join(d, 'f.' + kind)
        with mod.open(path, 'wb') as f:
            f.write(b)
        fh = mod.open(path, 'rb')
        return Opened(fh, (fh,))
    if kind == 'zip':
        path = os.path.join(d, 'f.zip')
        with zipfile.ZipFile(path, 'w') as z:
            z.writestr('data', b)
        z = zipfile.ZipFile(path, 'r')
        fh = z.open('data', 'r')
        return Opened(fh, (fh, z))
    raise ValueError(kind)


# ---------------------------------------------------------------------------
# plans

def gen_plan(r, index, tier):
    if r.random() < 0.35:
        return _gen_b(r)
    return _gen_a(r)


def _gen_a(r):
    shape = r.choice(['valid', 'valid', 'corrupt', 'corrupt', 'wide', 'deep', 'big'])
    thr = r.choice([4, 16, 64, 8192, None])
    pl = {'check': ID, 'part': 'A', 'shape': shape, 'config': {'threshold': thr, 'kind': 'all',
                                                                'bufsize': r.choice([None, None, 16, 16, 17, 64, 4096])}}
    if r.random() < 0.2:
        # the whole plan (reference included) runs with debug logging switched on: the logging paths look into
        # the input object on their own (peekIntoStream), and they differ per kind of object
        pl['config']['debug'] = True
    if shape in ('valid', 'corrupt'):
        w, cfg = common.gen_stream_workload(r, max_values=3)
        pl['workload'] = w
        if shape == 'corrupt':
            total, _ = common.stream_shape(w)
            if total:
                try:
                    nodes = corrupt.nodes_of(W.Workload(w).stream)
                except W.Skip:
                    nodes = None
                pl['corrupt'] = corrupt.gen_ops(r, b'\0' * total, nodes)
        return pl
    # hand-built shapes straddling the threshold; built from the independent writer
    knob = thr if thr is not None else 8192
    indef = r.random() < 0.5
    if shape == 'wide':
        n = r.choice([2, 5, 40])
        size = r.choice([0, 1, knob // 2 + 1])
        pl['raw'] = {'kind': 'wide', 'n': n, 'item': size, 'indef': indef, 'seq': r.random() < 0.5}
    elif shape == 'deep':
        pl['raw'] = {'kind': 'deep', 'depth': r.choice([2, 5, 12]), 'pad': r.choice([0, knob // 3 + 1]), 'indef': indef}
    else:
        pl['raw'] = {'kind': 'big', 'size': r.choice([knob - 1, knob, knob + 1, 2 * knob + 3, 3 * knob]),
                     'wrapped': r.random() < 0.6, 'indef': indef, 'count': r.choice([1, 2])}
        if thr is None:
            pl['raw']['size'] = r.choice([8191, 8192, 8193, 20000, 32768, 32769, 66000])
        elif r.random() < 0.15:
            pl['raw']['size'] = r.choice([32769, 66000])     # large in absolute terms, whatever the knob
    pl['use_spec'] = r.random() < 0.5
    pl['tail'] = r.choice(['', '', '0500', 'ff'])
    return pl


def build_raw(raw):
    """Bytes for a hand-built shape, from the independent TLV writer."""
    k = raw['kind']

    def cons(number, content, indef):
        if indef:
            return tlv.enc_ident(0, True, number) + b'\x80' + content + b'\x00\x00'
        return tlv.tlv(0, True, number, content)

    if k == 'wide':
        item = tlv.tlv(0, False, 4, b'\xab' * raw['item'])
        return cons(16, item * raw['n'], raw['indef'])
    if k == 'deep':
        body = tlv.tlv(0, False, 4, b'\xcd' * raw['pad'])
        for i in range(raw['depth']):
            body = cons(16, body + tlv.tlv(0, False, 4, b'\x01'), raw['indef'] and i % 2 == 0)
        return body
    big = tlv.tlv(0, False, 4, bytes((i * 7) & 0xff for i in range(raw['size'])))
    out = big * raw['count']
    if raw['wrapped']:
        out = cons(16, tlv.tlv(0, False, 4, b'hi') + out, raw['indef'])
    return out


def _raw_spec(raw):
    univ = U.p.univ
    k = raw['kind']
    if k == 'wide' or (k == 'big' and raw['wrapped']):
        return univ.SequenceOf(componentType=univ.OctetString())
    if k == 'big':
        return univ.OctetString()
    return None


def _gen_b(r):
    n = r.choice([40, 200, 1000])
    data = bytes(r.randrange(256) for _ in range(n)).hex()
    thr = r.choice([4, 16, 64, 8192])
    ops = []
    for _ in range(r.choice([5, 15, 60])):
        x = r.random()
        if x < 0.35:
            ops.append(['read', r.choice([0, 1, 1, 2, 3, 5, 17, 100, -1])])
        elif x < 0.5:
            ops.append(['peek', r.choice([1, 2, 3, 17])])
        elif x < 0.62:
            ops.append(['seek_rel', r.choice([1, 1, 2, 5, 30])])
        elif x < 0.72:
            ops.append(['seek_saved', r.randrange(8)])
        elif x < 0.82:
            ops.append(['mark'])
        elif x < 0.9:
            ops.append(['tell'])
        elif x < 0.95:
            ops.append(['arm', 'would_block', 1])
        else:
            ops.append(['arm', 'short', r.choice([1, 2, 5])])
    return {'check': ID, 'part': 'B', 'data': data, 'config': {'threshold': thr, 'kind': 'pipe'}, 'ops': ops,
            'deliver': r.choice(['all', 'all', 'half'])}


# ---------------------------------------------------------------------------
# execution

def execute(plan):
    if plan['part'] == 'B':
        return _exec_b(plan)
    return _exec_a(plan)


class _NoBudget(object):
    def __enter__(self):
        return self

    def __exit__(self, *exc):
        return False


def _budget(steps):
    return budget.StepBudget(steps) if steps else _NoBudget()


def _outcomes(dec, opened, spec, kw, nmax, steps=None):
    """(one-shot outcome, streaming outcome) for a substrate; each substrate object is
    used once, so the caller passes a factory.  With `steps` the library code runs under a
    deterministic step budget and an exhausted budget is the outcome 'Hang'."""
    from pyasn1 import error
    o = opened()
    try:
        try:
            with _budget(steps):
                v, rest = dec.decode(o.sub, asn1Spec=spec, **kw)
            one = ('OK', U.absval(v), bytes(rest) if isinstance(rest, (bytes, bytearray)) else repr(rest))
        except budget.Hang:
            one = ('ERR', 'Hang')
        except Exception as ex:
            one = ('ERR', type(ex).__name__)
    finally:
        o.close()
    o = opened()
    items = []
    try:
        try:
            with _budget(steps):
                for x in dec.StreamingDecoder(o.sub, asn1Spec=spec, **kw):
                    if isinstance(x, error.SubstrateUnderrunError):
                        items.append('UNDERRUN')
                        break
                    items.append(U.absval(x))
                    if len(items) > nmax:
                        items.append('TOO-MANY')
                        break
            st = ('STREAM', tuple(items), 'STOP')
        except budget.Hang:
            st = ('STREAM', (), 'Hang')
        except Exception as ex:
            st = ('STREAM', tuple(items), type(ex).__name__)
    finally:
        o.close()
    return one, st


STREAM_OBJECT_KINDS = ('bytesio', 'file', 'rawfile', 'gzip', 'zip', 'bz2', 'lzma', 'buffered-pipe', 'os-pipe', 'simpipe', 'simfile')


def _per_message(dec, opened, spec, kw, n):
    """One decoder per message on the SAME input object (what an application does when successive messages
    have different types): each decoder yields one object and is dropped; afterwards the caller's stream
    must still be usable.  Returns ('PERMSG', absvals, end)."""
    import gc
    from pyasn1 import error
    o = opened()
    items = []
    end = 'OK'
    try:
        try:
            for _ in range(n):
                it = iter(dec.StreamingDecoder(o.sub, asn1Spec=spec, **kw))
                x = next(it)
                if isinstance(x, error.SubstrateUnderrunError):
                    items.append('UNDERRUN')
                    break
                items.append(U.absval(x))
                del it, x
                gc.collect()        # whatever the library attached to the stream object goes away now
            rest = o.sub.read(1)
            if rest not in (b'', None):
                end = 'LEFTOVER'
        except StopIteration:
            end = 'STOP'
        except Exception as ex:
            end = type(ex).__name__
    finally:
        o.close()
    return ('PERMSG', tuple(items), end)


def _exec_a(plan):
    ctr = {}
    trace = []
    conf = plan['config']
    wl = None
    try:
        if 'workload' in plan:
            wl = W.Workload(plan['workload'])
            b = wl.stream
            if plan.get('corrupt'):
                b = corrupt.apply(b, plan['corrupt'])
            dec, spec, kw = wl.dec_mod, wl.spec, wl.dec_kw
        else:
            b = build_raw(plan['raw']) + bytes.fromhex(plan.get('tail', ''))
            from pyasn1.codec.ber import decoder as dec
            spec = _raw_spec(plan['raw']) if plan.get('use_spec') else None
            kw = {}
    except W.Skip as s:
        return common.skip_result(s.reason)
    if tlv.max_depth(b) > 40:
        return common.skip_result('too-deep')
    nmax = 8 + len(b) // 2
    prev = streams.set_drop_threshold(conf.get('threshold'))
    kinds = plan.get('kinds') or KINDS
    steps = None
    if conf.get('debug'):
        from pyasn1 import debug as _debug
        _debug.setLogger(_debug.Debug('all', printer=lambda msg: None))
        steps = 6000 * len(b) + 400000
        ctr['knob.debug_logging'] = 1
    try:
        ref = _outcomes(dec, lambda: open_kind('bytes', b), spec, kw, nmax, steps)
        trace.append(['ref', ref[0][0], ref[1][2], len(b)])
        if 'Hang' in (_cls(ref[0]), _cls(ref[1])):
            return common.skip_result('reference-exceeds-step-budget')
        for kind in kinds:
            streams.reset_drop_events()
            got = _outcomes(dec, lambda: open_kind(kind, b, conf.get('bufsize')), spec, kw, nmax, steps)
            trace.append(['kind', kind, got[0][0], got[1][2]])
            ctr['kind.%s' % kind] = ctr.get('kind.%s' % kind, 0) + 1
            pairs = [('one-shot', got[0], ref[0]), ('streaming', got[1], ref[1])]
            n_ref = len(ref[1][1])
            if kind in STREAM_OBJECT_KINDS and ref[1][2] == 'STOP' and n_ref >= 2 and \
                    all(not isinstance(x, str) for x in ref[1][1]):
                pm = _per_message(dec, lambda: open_kind(kind, b, conf.get('bufsize')), spec, kw, n_ref)
                pairs.append(('per-message', pm, ('PERMSG', ref[1][1], 'OK')))
                ctr['probe.per_message_decoders'] = ctr.get('probe.per_message_decoders', 0) + 1
            for which, g, w_ in pairs:
                if 'MemoryError' in (_cls(g), _cls(w_)):
                    # allocation failure on an absurd length depends on the machine, not on pyasn1
                    ctr['probe.memoryerror_not_compared'] = ctr.get('probe.memoryerror_not_compared', 0) + 1
                    continue
                if g != w_:
                    v = W.Violation('outcome-differs-from-bytes', kind=kind, mode=which,
                                    got=_brief(g), want=_brief(w_), input_hex=b.hex()[:400], input_len=len(b))
                    sig = [v.invariant, kind, which, _cls(g), _cls(w_)]
                    res = common.violation_result(v, sig, trace, ctr, None, None, {'kind': kind}, None)
                    return res
    finally:
        streams.set_drop_threshold(None)
        if conf.get('debug'):
            _debug.setLogger(None)
            while str(_debug.scope):
                _debug.scope.pop()
    ctr['part.A'] = 1
    ctr['shape.%s' % plan['shape']] = 1
    ctr['ref.%s' % ref[0][0]] = 1
    if conf.get('threshold') is not None:
        ctr['knob.threshold.%s' % conf['threshold']] = 1
    ctr['knob.file_buffer.%s' % (conf.get('bufsize') or 'default')] = 1
    thr = conf.get('threshold') or 8192
    if len(b) > thr:
        ctr['probe.input_larger_than_threshold'] = 1
    res = common.ok_result(trace, ctr, None, len(b) > 0)
    res['evals'] = 2 * len(kinds)
    return res


def _cls(o):
    if o[0] == 'ERR':
        return o[1]
    if o[0] in ('STREAM', 'PERMSG'):
        return o[2]
    return 'OK'


def _brief(o):
    return U.safe_repr(U.jsonable(o))


def _exec_b(plan):
    from pyasn1.codec import streaming
    ctr = {'part.B': 1}
    trace = []
    conf = plan['config']
    data = bytes.fromhex(plan['data'])
    thr = conf['threshold']
    prev = streams.set_drop_threshold(thr)
    try:
        raw = streams.SimPipe(data, 0, trace)
        if plan.get('deliver') == 'half':
            raw.deliver(len(data) // 2)
        else:
            raw.deliver_all()
            raw.close_stream()
        w = streaming.CachingStreamWrapper(raw)
        # reference model: logical absolute position, mark, renumbering base, furthest byte fetched
        m = {'pos': 0, 'mark': 0, 'base': 0, 'fetched': 0, 'saved': []}
        backseeks = 0
        drops = 0

        def fail(inv, idx, **d):
            v = W.Violation(inv, step=idx, op=plan['ops'][idx], **d)
            sig = [inv, plan['ops'][idx][0]]
            return common.violation_result(v, sig, trace, ctr, None, raw, {'kind': 'pipe', 'threshold': thr}, None)

        for idx, op in enumerate(plan['ops']):
            k = op[0]
            try:
                if k in ('read', 'peek'):
                    n = op[1]
                    armed = bool(raw.arms)
                    want_end = raw.d if n < 0 else min(m['pos'] + n, raw.d)
                    expect = data[m['pos']:max(m['pos'], want_end)]
                    cached = data[m['pos']:max(m['pos'], min(want_end, m['fetched']))]
                    got = w.read(n) if k == 'read' else w.peek(n)
                    trace.append([k, n, -1 if got is None else len(got)])
                    got_b = b'' if got is None else bytes(got)
                    if got_b != data[m['pos']:m['pos'] + len(got_b)]:
                        return fail('wrong-bytes', idx, pos=m['pos'], got=got_b.hex()[:60],
                                    want=data[m['pos']:m['pos'] + len(got_b)].hex()[:60])
                    if n >= 0 and len(got_b) > n:
                        return fail('more-than-requested', idx, n=n, got_len=len(got_b))
                    if len(got_b) < len(cached):
                        return fail('cached-bytes-not-returned', idx, pos=m['pos'], n=n,
                                    got_len=len(got_b), cached_len=len(cached))
                    if not armed:
                        if got_b != expect:
                            return fail('short-although-data-available', idx, pos=m['pos'], n=n,
                                        got_len=len(got_b), want_len=len(expect))
                        none_expected = (expect == b'' and not raw.closed_ and n != 0)
                        if (got is None) != none_expected:
                            return fail('none-vs-empty', idx, got=U.safe_repr(got, 20), none_expected=none_expected)
                    m['fetched'] = max(m['fetched'], m['pos'] + len(got_b))
                    if k == 'read':
                        m['pos'] += len(got_b)
                    t = w.tell()
                    if t != m['pos'] - m['base']:
                        return fail('position-after-%s' % k, idx, tell=t, want=m['pos'] - m['base'])
                elif k == 'seek_rel':
                    j = min(op[1], m['pos'] - m['mark'])
                    if j <= 0:
                        continue
                    w.seek(-j, os.SEEK_CUR)
                    m['pos'] -= j
                    backseeks += 1
                    trace.append(['seek_rel', j])
                    if w.tell() != m['pos'] - m['base']:
                        return fail('position-after-seek', idx, tell=w.tell(), want=m['pos'] - m['base'])
                elif k == 'seek_saved':
                    cand = [p for p in m['saved'] if m['mark'] <= p <= m['pos']]
                    if not cand:
                        continue
                    p = cand[op[1] % len(cand)]
                    w.seek(p - m['base'])
                    if p < m['pos']:
                        backseeks += 1
                    m['pos'] = p
                    trace.append(['seek_saved', p])
                    if w.tell() != m['pos'] - m['base']:
                        return fail('position-after-seek', idx, tell=w.tell(), want=m['pos'] - m['base'])
                elif k == 'mark':
                    before = w.tell()
                    w.markedPosition = before
                    m['mark'] = m['pos']
                    if before > thr:
                        # documented (test-pinned) renumbering: cache dropped, positions restart at 0
                        m['base'] = m['pos']
                        drops += 1
                        want_mark = 0
                    else:
                        want_mark = before
                    trace.append(['mark', before, w.tell()])
                    if w.markedPosition != want_mark:
                        return fail('marked-position', idx, got=w.markedPosition, want=want_mark)
                    if w.tell() != m['pos'] - m['base']:
                        return fail('position-after-mark', idx, tell=w.tell(), want=m['pos'] - m['base'])
                elif k == 'tell':
                    t = w.tell()
                    trace.append(['tell', t])
                    if t != m['pos'] - m['base']:
                        return fail('tell', idx, tell=t, want=m['pos'] - m['base'])
                    m['saved'].append(m['pos'])
                elif k == 'arm':
                    raw.arm(op[1], op[2])
                    trace.append(list(op))
            except Exception as ex:   # anything the wrapper throws on a permitted operation
                d = W.describe_exc(ex)
                return fail('wrapper-raised', idx, exc_cls=d['cls'], msg=d['msg'])
        # final: reading the rest yields exactly the rest
        raw.disarm()
        raw.deliver_all()
        raw.close_stream()
        try:
            rest = w.read()
        except Exception as ex:
            d = W.describe_exc(ex)
            v = W.Violation('wrapper-raised', step=len(plan['ops']), exc_cls=d['cls'], msg=d['msg'])
            return common.violation_result(v, ['wrapper-raised', 'final-read'], trace, ctr, None, raw,
                                           {'kind': 'pipe', 'threshold': thr}, None)
        if (rest or b'') != data[m['pos']:]:
            v = W.Violation('final-rest-differs', step=len(plan['ops']), got_len=len(rest or b''),
                            want_len=len(data) - m['pos'])
            return common.violation_result(v, ['final-rest-differs', 'final-read'], trace, ctr, None, raw,
                                           {'kind': 'pipe', 'threshold': thr}, None)
        ctr['wrapper.backseeks'] = backseeks
        ctr['probe.wrapper_cache_drop'] = drops
        ctr['wrapper.ops'] = len(plan['ops'])
        for k_, v_ in raw.fault_fired.items():
            ctr['fault.%s' % k_] = v_
        res = common.ok_result(trace, ctr, None, bool(backseeks or drops))
        res['evals'] = len(plan['ops'])
        return res
    finally:
        streams.set_drop_threshold(None)


def shrink_candidates(plan):
    if plan['part'] == 'B':
        ops = plan['ops']
        n = len(ops)
        size = n // 2
        while size >= 1:
            for lo in range(0, n, size):
                c = copy.deepcopy(plan)
                c['ops'] = ops[:lo] + ops[lo + size:]
                yield c
            size //= 2
        if len(plan['data']) > 40:
            c = copy.deepcopy(plan)
            c['data'] = plan['data'][:40]
            yield c
        return
    if plan.get('kinds') is None:
        for k in KINDS:
            c = copy.deepcopy(plan)
            c['kinds'] = [k]
            yield c
    if plan.get('corrupt'):
        for i in range(len(plan['corrupt'])):
            c = copy.deepcopy(plan)
            del c['corrupt'][i]
            yield c
    if 'workload' in plan:
        w = plan['workload']
        if len(w['values']) > 1:
            for i in range(len(w['values'])):
                c = copy.deepcopy(plan)
                del c['workload']['values'][i]
                yield c
        for nd, nvs in common.shrink_desc_values(w['desc'], w['values']):
            c = copy.deepcopy(plan)
            c['workload']['desc'] = nd
            c['workload']['values'] = nvs
            c['workload']['open_types'] = U.has_open(nd)
            yield c
    elif 'raw' in plan:
        raw = plan['raw']
        for key in ('n', 'depth', 'count'):
            if raw.get(key, 0) > 1:
                c = copy.deepcopy(plan)
                c['raw'][key] = max(1, raw[key] // 2)
                yield c
        if plan.get('tail'):
            c = copy.deepcopy(plan)
            c['tail'] = ''
            yield c


def finding_context(plan, viol):
    d = viol.get('detail', {})
    kind = d.get('kind')
    nonseek = kind in ('simpipe', 'wrapped-simpipe', 'buffered-pipe', 'os-pipe')
    stream = bytes.fromhex(d['input_hex']) if d.get('input_hex') and len(d['input_hex']) < 400 else _input_bytes(plan)
    p2 = copy.deepcopy(plan)
    p2['config']['threshold'] = 10 ** 9
    if kind:
        p2['kinds'] = [kind]
    return ('pipe' if nonseek else kind), plan['config'].get('threshold'), stream, None, p2


def _input_bytes(plan):
    try:
        if 'workload' in plan:
            b = W.Workload(plan['workload']).stream
            if plan.get('corrupt'):
                b = corrupt.apply(b, plan['corrupt'])
            return b
        return build_raw(plan['raw']) + bytes.fromhex(plan.get('tail', ''))
    except W.Skip:
        return None
