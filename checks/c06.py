"""C06 -- truncated input is reported as insufficient data at every cut point.

Fault: the producer crashes (the stream ends) after byte k, for EVERY k in [0,|e|)
of every sampled encoding e.  Fault enumeration over the cut position; seeded
sampling over the encoding, codec, guiding type, presentation and the arrival
schedule of the surviving prefix.
"""
import copy

from simkit import plan as P, streams, tlv, universe as U, world as W
from checks import common

ID = 'C06'
LEVEL = 'fault_enumeration'
TIERS = {"quick": 12000, "thorough": 800000}
BUDGET = {"quick": 120, "thorough": 1500}
RULE = ('per sampled valid encoding e (seeded: descriptor, value, codec, with/without guiding type): every cut '
        'point k in [0,|e|) x presentations {one-shot on bytes, one-shot on a closed seekable stream, one-shot on a '
        'closed non-seekable stream, streaming over an open-then-closed stream under a seeded arrival schedule}; '
        'evaluations = (item, k, presentation) triples; non-trivial and distinct = distinct (item, k) pairs with 0<k')
ASSUMPTIONS = [
    'e is valid: well-framed per the independent scanner and one-shot decode(e) returns a value and an empty remainder (else skipped)',
    'insufficient-data error = pyasn1.error.SubstrateUnderrunError or a subclass (EndOfStreamError)',
]
REAL = ['pyasn1.codec.{ber,cer,der}.decoder (Decoder.__call__, StreamingDecoder, SingleItemDecoder, payload decoders)',
        'pyasn1.codec.streaming', 'pyasn1 encoders', 'pyasn1.type.*', 'pyasn1.error hierarchy']
STUB = ['byte sources SimFile/SimPipe', 'producer crash (close after byte k)', 'consumer loop calling next()']

MAX_LEN = 300


def gen_plan(r, index, tier):
    if r.random() < 0.008:
        return _gen_big(r)
    w, cfg = common.gen_stream_workload(r, max_values=1, small=r.random() < 0.6)
    conf = {'stream_kind': r.choice(['file', 'file', 'pipe']),
            'threshold': r.choice([None, None, 8192, 16]),
            'chunks': [r.choice([1, 1, 2, 3, 5, 50, 400]) for _ in range(r.randrange(1, 5))],
            'open_polls': r.choice([1, 2, 3]),
            'poll_each_chunk': r.random() < 0.6}
    if r.random() < 0.5:
        # read faults while the surviving prefix arrives, and around the moment the stream is closed
        conf['arms'] = [[r.randrange(6), r.choice(['would_block', 'short']), r.choice([1, 1, 2, 3])]
                        for _ in range(r.choice([1, 2, 3]))]
        if r.random() < 0.5:
            conf['arm_at_close'] = [r.choice(['short', 'short', 'would_block']), r.choice([1, 1, 2])]
    return {'check': ID, 'workload': w, 'config': conf}


def _gen_big(r):
    """An element whose length needs 3 length octets (> 65535): too long to cut everywhere,
    so the cut points are the structural ones near the headers and the end plus a seeded sample."""
    n = r.choice([65536, 66000, 70001])
    inner = {'k': r.choice(['OCTETSTRING', 'OCTETSTRING', 'UTF8']), 'tags': []}
    val = ('ab' * n) if inner['k'] == 'OCTETSTRING' else ('x' * n)
    if r.random() < 0.5:
        desc = {'k': 'SEQ', 'tags': [], 'fields': [{'n': 'a', 'd': {'k': 'INTEGER', 'tags': []}, 'opt': 'R'},
                                                   {'n': 'b', 'd': inner, 'opt': 'R'}]}
        value = {'a': 5, 'b': val}
    else:
        desc, value = inner, val
    codec = r.choice(['ber', 'der', 'ber-indef'])
    w = {'desc': desc, 'values': [value], 'codec': codec, 'decoder': common.decoder_for(codec),
         'use_spec': r.random() < 0.8, 'open_types': False}
    ks = sorted(set(list(range(0, 12)) + [n + 5, n + 9, n + 10, n + 11] + [r.randrange(14, n) for _ in range(3)]))
    conf = {'stream_kind': r.choice(['file', 'pipe']), 'threshold': r.choice([None, 8192]),
            'chunks': [r.choice([4096, 30000, 70000])], 'open_polls': 1, 'poll_each_chunk': r.random() < 0.5}
    return {'check': ID, 'workload': w, 'config': conf, 'only_k': ks, 'big': True}


def systematic(tier):
    """Prefixes of encodings too long to build: a plain OCTET STRING (alone, or as the last component of a
    SEQUENCE) whose length field declares 16 MiB .. 1 TiB, of which only the header and a few content octets
    exist.  Such an encoding is valid by construction (any content of that length will do), so every prefix
    is truncated input."""
    out = []
    lengths = [1 << 24, (1 << 27) - 1, 1 << 27, (1 << 27) + 1, (1 << 31) - 1, 1 << 31, 1 << 32, 1 << 40]
    if tier == 'quick':
        lengths = [(1 << 27) + 1, 1 << 31, 1 << 40]
    for n in lengths:
        for wrapped in (False, True):
            out.append({'check': ID, 'virtual': {'length': n, 'wrapped': wrapped, 'have': [0, 1, 100]},
                        'config': {'stream_kind': 'file', 'threshold': None, 'chunks': [400], 'open_polls': 1,
                                   'poll_each_chunk': False}})
            # the same on a non-blocking, non-seekable stream: an empty poll (None) with nearly all of the
            # content outstanding is an underrun while the stream is open
            out.append({'check': ID, 'virtual': {'length': n, 'wrapped': wrapped, 'have': [0, 1, 100]},
                        'config': {'stream_kind': 'pipe', 'threshold': 8192, 'chunks': [3, 400], 'open_polls': 2,
                                   'poll_each_chunk': True}})
    # the same with tens of MiB of the content present: the cut falls far behind the first internal read,
    # wherever an implementation splits a large read into pieces (16, 32, 64 MiB)
    M = 1 << 20
    big = [(96 * M + 12345, [32 * M + 1000]), (200 * M + 1, [64 * M + 77])]
    if tier != 'quick':
        big += [(96 * M + 12345, [16 * M + 5, 64 * M]), (200 * M + 1, [96 * M + 9, 128 * M + 1])]
    for n, have in big:
        out.append({'check': ID, 'virtual': {'length': n, 'wrapped': False, 'have': have},
                    'config': {'stream_kind': 'file', 'threshold': None, 'chunks': [400], 'open_polls': 1,
                               'poll_each_chunk': False}, 'timeout_s': 900})
    return out


def _execute_virtual(plan):
    from pyasn1.codec.ber import decoder as dec
    from simkit.corrupt import _enc_len
    v = plan['virtual']
    header = b'\x04' + bytes.fromhex(_enc_len(v['length']))
    spec = U.p.univ.OctetString()
    if v['wrapped']:
        inner = b'\x02\x01\x05' + header
        header = b'\x30' + bytes.fromhex(_enc_len(3 + len(header) + v['length'])) + inner
        spec = None
    ctr = {'probe.virtual_huge_element': 0}
    trace = []
    sites = set()

    class _Wl(object):
        pass
    wl = _Wl()
    wl.dec_mod, wl.spec, wl.dec_kw = dec, spec, {}
    evals = 0
    try:
        for have in v['have']:
            prefix = header + b'\x5a' * have
            for k in sorted(set([len(prefix), len(header), max(1, len(header) - 1)])):
                if k > len(prefix):
                    continue
                evals += _check_cut(wl, prefix, k, plan['config'], trace, ctr, sites, plan.get('only_pres'))
                ctr['probe.virtual_huge_element'] += 1
    except W.Violation as viol:
        viol.detail['declared_length'] = v['length']
        sig = [viol.invariant, viol.detail.get('presentation'), viol.detail.get('exc_cls'), viol.detail.get('site')]
        res = common.violation_result(viol, sig, trace, ctr, None, None, {'kind': 'file'}, None)
        res['evals'] = evals
        return res
    res = common.ok_result(trace, ctr, None, True)
    res['evals'] = evals
    return res


def execute(plan):
    if plan.get('virtual'):
        return _execute_virtual(plan)
    conf = plan['config']
    try:
        wl = W.Workload(plan['workload'])
        wl.require_well_framed()
        e = wl.stream
        if len(e) > MAX_LEN and not plan.get('big'):
            raise W.Skip('too-long')
        try:
            v, rest = wl.dec_mod.decode(e, asn1Spec=wl.spec, **wl.dec_kw)
        except Exception as ex:
            raise W.Skip('reference:%s' % type(ex).__name__)
        if rest or not isinstance(v, U.p.base.Asn1Item):
            raise W.Skip('reference-remainder' if rest else 'reference-non-object')
    except W.Skip as s:
        return common.skip_result(s.reason)
    ctr = {}
    trace = []
    ks = plan.get('only_k')
    if ks is None:
        ks = range(0, len(e))
    try:
        scan = tlv.scan(e)
    except tlv.ScanError:
        scan = None
    evals = 0
    sites = set()
    prev = streams.set_drop_threshold(conf.get('threshold'))
    try:
        for k in ks:
            if k >= len(e):
                continue
            label = tlv.label_position(scan, k) if scan is not None else 'in-content'
            ctr['probe.cut.%s' % label] = ctr.get('probe.cut.%s' % label, 0) + 1
            try:
                evals += _check_cut(wl, e, k, conf, trace, ctr, sites, plan.get('only_pres'))
            except W.Violation as v:
                v.detail['cut'] = k
                v.detail['cut_label'] = label
                v.detail['encoding_hex'] = e.hex()
                sig = [v.invariant, v.detail.get('presentation'), v.detail.get('exc_cls'), v.detail.get('site')]
                res = common.violation_result(v, sig, trace, ctr, None, None,
                                              {'kind': conf['stream_kind'], 'threshold': conf.get('threshold')}, wl)
                res['evals'] = evals
                return res
    finally:
        streams.set_drop_threshold(None)
    common.count_run(ctr, None, None, {'kind': conf['stream_kind'], 'threshold': conf.get('threshold')}, wl)
    res = common.ok_result(trace, ctr, None, len(e) > 1)
    res['sites'] = sorted(sites)
    res['evals'] = evals
    res['weight'] = max(0, len(list(ks)) - 1)
    if plan.get('big'):
        res['counters']['probe.three_octet_length'] = 1
    return res


def _expect_underrun_error(fn, pres, k):
    from pyasn1 import error
    streams.reset_drop_events()
    try:
        out = fn()
    except error.SubstrateUnderrunError:
        return
    except BaseException as ex:   # noqa
        if isinstance(ex, (KeyboardInterrupt, SystemExit)):
            raise
        d = W.describe_exc(ex)
        raise W.Violation('truncation-reported-as-other-error', presentation=pres,
                          exc_cls=d['cls'], msg=d['msg'], site=d['site'])
    raise W.Violation('truncated-input-returned-value', presentation=pres,
                      value=U.safe_repr(out, 200))


def _check_cut(wl, e, k, conf, trace, ctr, sites, only_pres):
    prefix = e[:k]
    dec = wl.dec_mod
    n = 0
    # 1. one-shot on bytes
    if only_pres in (None, 'bytes'):
        _expect_underrun_error(lambda: dec.decode(prefix, asn1Spec=wl.spec, **wl.dec_kw), 'bytes', k)
        n += 1
    # 2. one-shot on closed streams
    for kind in ('file', 'pipe'):
        if only_pres not in (None, 'closed-' + kind):
            continue
        st = W.open_stream(kind, prefix, trace)
        st.deliver_all()
        st.close_stream()
        _expect_underrun_error(lambda: dec.decode(st, asn1Spec=wl.spec, **wl.dec_kw), 'closed-' + kind, k)
        n += 1
    # 3. streaming: open while the prefix arrives, then closed
    if only_pres in (None, 'streaming'):
        _check_streaming(wl, prefix, k, conf, trace, ctr, sites)
        n += 1
    return n


def _check_streaming(wl, prefix, k, conf, trace, ctr, sites):
    from pyasn1 import error
    pres = 'streaming'
    streams.reset_drop_events()
    st = W.open_stream(conf['stream_kind'], prefix, trace)
    cons = W.Consumer(wl.dec_mod, st, wl.spec, wl.dec_kw, trace=trace)

    def poll_open(where):
        kind, payload, starved = cons.poll()
        if kind == W.UNDERRUN:
            ctr['underruns'] = ctr.get('underruns', 0) + 1
            return
        if kind == W.ERR:
            d = W.describe_exc(payload)
            raise W.Violation('open-stream-error-instead-of-underrun', presentation=pres, where=where,
                              exc_cls=d['cls'], msg=d['msg'], site=d['site'])
        raise W.Violation('open-stream-%s-instead-of-underrun' % kind.lower(), presentation=pres, where=where,
                          value=U.safe_repr(payload, 120))

    chunks = conf['chunks']
    d = 0
    i = 0

    def arm(kind_, arg):
        if kind_ == 'would_block':
            for _ in range(arg):
                st.arm('would_block', None)
        else:
            st.arm('short', arg)
        trace.append(['arm', 0, kind_, arg])

    while d < k:
        c = chunks[i % len(chunks)]
        for at, kind_, arg in conf.get('arms') or ():
            if at == i:
                arm(kind_, arg)
        i += 1
        st.deliver(c)
        d += c
        if conf.get('poll_each_chunk'):
            poll_open('partial')
    for _ in range(conf['open_polls']):
        poll_open('all-prefix-delivered')
    if conf.get('arm_at_close'):
        arm(conf['arm_at_close'][0], conf['arm_at_close'][1])
    st.close_stream()
    trace.append(['close', 0])
    # after the close every armed fault costs at most one more poll
    extra = (conf['arm_at_close'][1] if conf.get('arm_at_close') else 0) + \
        sum(a[2] for a in conf.get('arms') or ())
    for j in range(2 + extra):
        kind, payload, starved = cons.poll()
        if kind == W.ERR and isinstance(payload, error.EndOfStreamError):
            break
        if kind == W.ERR:
            dd = W.describe_exc(payload)
            raise W.Violation('closed-stream-other-error', presentation=pres, exc_cls=dd['cls'],
                              msg=dd['msg'], site=dd['site'])
        if kind == W.UNDERRUN:
            continue
        raise W.Violation('closed-stream-%s-instead-of-end-of-stream' % kind.lower(), presentation=pres,
                          value=U.safe_repr(payload, 120))
    else:
        raise W.Violation('closed-stream-no-end-of-stream-error', presentation=pres,
                          residual=k - (st.position() if hasattr(st, 'position') else 0))
    for chain, line in cons.sites:
        sites.add('%s@%s' % ('<'.join(chain[:6]), line))
    for fk, fv in st.fault_fired.items():
        if fv:
            ctr['fault.%s' % fk] = ctr.get('fault.%s' % fk, 0) + fv


def shrink_candidates(plan, detail=None):
    if plan.get('virtual'):
        return
    for c in _shrink_candidates(plan, detail):
        yield c


def _shrink_candidates(plan, detail=None):
    # 1. a single cut point
    if plan.get('only_k') is None:
        ks = list(range(0, MAX_LEN))
        if detail and 'cut' in detail:
            ks = [detail['cut']] + ks
        for k in ks:
            c = copy.deepcopy(plan)
            c['only_k'] = [k]
            yield c
        return
    if plan.get('only_pres') is None:
        for pres in ('bytes', 'closed-file', 'closed-pipe', 'streaming'):
            c = copy.deepcopy(plan)
            c['only_pres'] = pres
            yield c
    conf = plan['config']
    if conf.get('arms'):
        c = copy.deepcopy(plan)
        del c['config']['arms']
        yield c
    if conf.get('arm_at_close'):
        c = copy.deepcopy(plan)
        del c['config']['arm_at_close']
        yield c
    if conf.get('chunks') != [400]:
        c = copy.deepcopy(plan)
        c['config']['chunks'] = [400]
        yield c
    if conf.get('open_polls') != 1:
        c = copy.deepcopy(plan)
        c['config']['open_polls'] = 1
        yield c
    if conf.get('threshold') is not None:
        c = copy.deepcopy(plan)
        c['config']['threshold'] = None
        yield c
    w = plan['workload']
    if w['codec'] != 'ber':
        c = copy.deepcopy(plan)
        c['workload']['codec'] = 'ber'
        c['workload']['decoder'] = 'ber'
        yield c
    # smaller schema/value: the cut point moves, so re-open the cut enumeration
    for nd, nvs in common.shrink_desc_values(w['desc'], w['values']):
        c = copy.deepcopy(plan)
        c['workload']['desc'] = nd
        c['workload']['values'] = nvs
        c['workload']['open_types'] = U.has_open(nd)
        c.pop('only_k', None)
        yield c


def finding_context(plan, viol):
    """For the known-finding classifiers: which stream kind / knob / bytes the failing
    presentation used, and the same single case with the drop knob switched off."""
    d = viol.get('detail', {})
    pres = d.get('presentation')
    conf = plan['config']
    kind = {'closed-pipe': 'pipe', 'closed-file': 'file', 'bytes': 'bytes'}.get(pres, conf['stream_kind'])
    stream = bytes.fromhex(d['encoding_hex']) if 'encoding_hex' in d else None
    p2 = copy.deepcopy(plan)
    p2['config']['threshold'] = 10 ** 9
    if 'cut' in d:
        p2['only_k'] = [d['cut']]
    if pres:
        p2['only_pres'] = pres
    return kind, conf.get('threshold'), stream, d.get('cut'), p2
