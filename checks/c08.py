"""C08 -- malformed input fails cleanly: only library errors, always terminates.

Fault: corruption of stored bytes of valid encodings before they are read (bit flip,
structural octet, insert, delete, TLV duplication, length rewrite, identifier
rewrite, truncation), seeded random strings, and the complete sweep of all strings
of length <= 3 over a 14-octet structural alphabet.  System: decoders {BER,CER,DER}
x {one-shot on bytes, streaming on a stream double under a seeded arrival schedule
with a final drain} x guiding type in {generating schema, neighbouring schema, none}.
"""
import copy
import itertools

from simkit import budget, corrupt, plan as P, streams, tlv, universe as U, world as W
from checks import common

ID = 'C08'
LEVEL = 'exploration'
TIERS = {"quick": 100000, "thorough": 6000000}
BUDGET = {'quick': 150, 'thorough': 1500}
RULE = ('seeded plans: (valid encoding of a universe value + 1-3 stored-byte corruption faults | seeded structural-octet string) x '
        'decoder {ber,cer,der} x guiding type {own, neighbour, none} x mode {one-shot bytes, streaming over SimFile/SimPipe under a '
        'seeded arrival schedule + drain}; plus the exhaustive sweep of all strings of length <= 3 over 14 structural octets for each '
        'decoder with and without a guiding type. evaluations = decoder invocations; non-trivial: the input differs from every valid '
        'encoding of the workload (a fault was applied) and is non-empty; distinct = distinct plan digests among those')
ASSUMPTIONS = [
    'inputs whose nesting depth (independent scanner, upper bound) exceeds 24 are discarded (the property bounds nesting)',
    'termination bound: stream reads <= 16*|b|+64 and control-flow events (jumps + function entries, sys.monitoring) <= 4000*|b|+200000',
    'MemoryError from absurd length fields on real allocators is not exercised (inputs are in-memory doubles)',
]
REAL = ['pyasn1.codec.{ber,cer,der}.decoder', 'pyasn1.codec.streaming', 'pyasn1.type.* (value construction from decoded payloads)']
STUB = ['byte sources SimFile/SimPipe', 'stored-byte corruption injector', 'arrival schedule', 'step budget via sys.monitoring']

ALPHABET = [0x00, 0x80, 0x81, 0x84, 0xff, 0x30, 0x31, 0x24, 0xa0, 0x1f, 0x7f, 0x02, 0x04, 0x05]
# octets that are structural *inside* primitive contents (REAL first octet / exponent forms, BIT STRING pad
# counts, OID continuation bits, sign bits, time and number characters)
CONTENT_ALPHABET = [0x00, 0x01, 0x02, 0x03, 0x07, 0x08, 0x09, 0x40, 0x41, 0x42, 0x43, 0x7f, 0x80, 0x81, 0x82, 0x83,
                    0xc0, 0xc3, 0xff, 0x2e, 0x30, 0x31, 0x2d, 0x5a]
CONTENT_TAGS = [0x01, 0x02, 0x03, 0x04, 0x05, 0x06, 0x09, 0x0a, 0x0c, 0x13, 0x17, 0x18, 0x1e, 0x23, 0x24]
MAX_DEPTH = 24


def gen_plan(r, index, tier):
    w, cfg = common.gen_stream_workload(r, max_values=2, small=r.random() < 0.7)
    pl = {'check': ID, 'workload': w}
    pl['decoder'] = r.choice(['own', 'own', 'ber', 'cer', 'der'])
    guide = r.choice(['own', 'own', 'neighbour', 'none'])
    pl['guide'] = guide
    if guide == 'neighbour':
        cfg2 = U.GenCfg(max_depth=2, max_fields=3, allow_open=False)
        pl['neighbour'] = U.gen_desc(r, cfg2)
    x = r.random()
    total, points = common.stream_shape(w)
    if x < 0.12 or total is None:
        n = r.choice([1, 2, 4, 5, 8, 16, 24])
        pl['raw_hex'] = bytes(r.choice(ALPHABET) if r.random() < 0.8 else r.randrange(256) for _ in range(n)).hex()
        total = n
    else:
        try:
            nodes = corrupt.nodes_of(W.Workload(w).stream)
        except W.Skip:
            nodes = None
        pl['corrupt'] = corrupt.gen_ops(r, b'\0' * total, nodes)
    if r.random() < 0.5:
        pl['mode'] = 'oneshot'
    else:
        pl['mode'] = 'stream'
        kind = r.choice(['file', 'pipe'])
        pl['config'] = {'kind': kind, 'threshold': r.choice([16, 8192, 8192]) if kind == 'pipe' else None, 'prewrap': False}
        steps = W.gen_schedule(r, total + 8, None, max_steps=r.choice([6, 20]),
                               faults=[f for f in ('would_block', 'short') if r.random() < 0.5])
        steps.append(['drain'])
        pl['steps'] = steps
    return pl


def systematic(tier):
    out = []
    specs = [None, {'k': 'INTEGER', 'tags': []}, {'k': 'OCTETSTRING', 'tags': []},
             {'k': 'SEQOF', 'tags': [], 'of': {'k': 'INTEGER', 'tags': []}},
             {'k': 'SEQ', 'tags': [], 'fields': [{'n': 'a', 'd': {'k': 'INTEGER', 'tags': []}, 'opt': 'R'},
                                                 {'n': 'b', 'd': {'k': 'BITSTRING', 'tags': []}, 'opt': 'O'}]},
             {'k': 'SET', 'tags': [], 'fields': [{'n': 'a', 'd': {'k': 'NULL', 'tags': []}, 'opt': 'R'},
                                                 {'n': 'b', 'd': {'k': 'OCTETSTRING', 'tags': []}, 'opt': 'D', 'dv': '00'}]},
             {'k': 'CHOICE', 'tags': [], 'alts': [['x', {'k': 'INTEGER', 'tags': []}], ['y', {'k': 'OCTETSTRING', 'tags': []}]]},
             {'k': 'ANY', 'tags': []}, {'k': 'BITSTRING', 'tags': []}, {'k': 'REAL', 'tags': []}, {'k': 'OID', 'tags': []}]
    if tier == 'quick':
        specs = specs[:5]
    for dec in ('ber', 'cer', 'der'):
        for si, spec in enumerate(specs):
            for first in ALPHABET:
                out.append({'check': ID, 'exhaustive': True, 'decoder': dec, 'spec': spec, 'first': first})
    # every content of length <= 3 over the content alphabet, for each universal primitive type
    for dec in ('ber', 'cer', 'der'):
        for t in CONTENT_TAGS:
            for first in CONTENT_ALPHABET:
                out.append({'check': ID, 'exhaustive': True, 'content_of': t, 'decoder': dec, 'spec': None, 'first': first})
    # character-form REALs (ISO 6093 NR1/NR2/NR3 and what Python's float() reads beyond them): every text of
    # length <= 3 (quick) / 4 (thorough) over a 16-character alphabet after each of the form octets 00..03
    for dec in ('ber', 'cer', 'der'):
        for form in (0, 1, 2, 3):
            for first in range(len(REAL_TEXT_ALPHABET)):
                out.append({'check': ID, 'exhaustive': True, 'real_text': form, 'decoder': dec, 'spec': None,
                            'first': first, 'max_len': 3 if tier == 'quick' else 4})
    # very long INTEGER / ENUMERATED contents (beyond what CPython converts to decimal text by default), with no
    # guide, a plain guide and a constrained guide
    for dec in ('ber', 'cer', 'der'):
        for spec in (None, {'k': 'INTEGER', 'tags': []}, {'k': 'INTEGER', 'tags': [], 'con': {'range': [0, 10]}}):
            out.append({'check': ID, 'exhaustive': True, 'long_ints': True, 'decoder': dec, 'spec': spec, 'first': 0})
    # length fields at the sizes where an integer type, an allocation or a read size changes its mind
    # (2**31, 2**32, sys.maxsize, 2**64), behind every kind of identifier, under guides that take the element
    # whole (ANY), by content (OCTET STRING) or by components
    for dec in ('ber', 'cer', 'der'):
        for spec in (None, {'k': 'ANY', 'tags': []}, {'k': 'OCTETSTRING', 'tags': []},
                     {'k': 'SEQ', 'tags': [], 'fields': [{'n': 'a', 'd': {'k': 'OID', 'tags': []}, 'opt': 'R'},
                                                         {'n': 'b', 'd': {'k': 'ANY', 'tags': []}, 'opt': 'R'}]},
                     {'k': 'SEQOF', 'tags': [], 'of': {'k': 'ANY', 'tags': []}},
                     {'k': 'ANY', 'tags': [['E', 'C', 0]]}):
            out.append({'check': ID, 'exhaustive': True, 'boundary_lengths': True, 'decoder': dec, 'spec': spec, 'first': 0})
    # constructed strings: every list of at most two fragments (a fragment = right/wrong/nested identifier with
    # every content of length <= 2 over a small alphabet, or an empty nested constructed fragment), in the
    # definite and the indefinite form, for three string types, with and without the type as guide
    for dec in ('ber', 'cer', 'der'):
        for t in (0x23, 0x24, 0x2c):
            for form in ('d', 'i'):
                for guided in (False, True):
                    out.append({'check': ID, 'exhaustive': True, 'fragments_of': t, 'form': form, 'guided': guided,
                                'decoder': dec, 'spec': None, 'first': 0})
    return out


FRAG_ALPHABET = [0x00, 0x01, 0x07, 0x08, 0x80, 0xff]
REAL_TEXT_ALPHABET = b'0159.,eE+- naifx_'


def _long_real_texts(form):
    """Long digit strings: mantissas and exponents beyond what a double holds."""
    for digits in ('1', '9', '12'):
        for zeros in (17, 40, 308, 309, 400):
            for tail in ('', '.', '.0', 'E1', 'e-400', 'E400'):
                body = bytes([form]) + (digits + '0' * zeros + tail).encode()
                yield bytes([0x09]) + bytes.fromhex(corrupt._enc_len(len(body))) + body
    for text in ('1E400', '1E-400', '1e9999', '-1E400', '.' + '0' * 330 + '1', '0' * 400, '1' * 400):
        body = bytes([form]) + text.encode()
        yield bytes([0x09]) + bytes.fromhex(corrupt._enc_len(len(body))) + body


def _real_text_strings(form, first, max_len):
    if first == 0:
        for s_ in _long_real_texts(form):
            yield s_
    for n in range(0, max_len):
        for rest in itertools.product(REAL_TEXT_ALPHABET, repeat=n):
            body = bytes([form, REAL_TEXT_ALPHABET[first]]) + bytes(rest)
            yield bytes([0x09, len(body)]) + body


def _fragment_strings(t, form):
    prim = t & 0x1f
    other = 0x03 if prim != 0x03 else 0x04
    frags = []
    for n in (0, 1, 2):
        for body in itertools.product(FRAG_ALPHABET, repeat=n):
            frags.append(bytes([prim, n]) + bytes(body))
    frags += [bytes([other, 0]), bytes([other, 1, 0]), bytes([t, 0]), bytes([t, 0x80, 0, 0]),
              bytes([t, 2, prim, 0]), bytes([t, 0x80, prim, 0, 0, 0]), bytes([t, 3, prim, 1, 0])]
    lists = [()] + [(a,) for a in frags] + [(a, b) for a in frags for b in frags]
    for fl in lists:
        body = b''.join(fl)
        if form == 'd':
            yield bytes([t]) + bytes.fromhex(corrupt._enc_len(len(body))) + body
        else:
            yield bytes([t, 0x80]) + body + b'\x00\x00'


def _fragment_spec(t):
    return {'k': {0x23: 'BITSTRING', 0x24: 'OCTETSTRING', 0x2c: 'UTF8'}[t], 'tags': []}


# ---------------------------------------------------------------------------

def _value_ok(v):
    base = U.p.base
    if not isinstance(v, base.Asn1Item):
        return 'not-an-asn1-object:%s' % type(v).__name__
    try:
        if not v.isValue:
            return 'schema-object-returned'
    except Exception as ex:
        return 'isValue-raises:%s' % type(ex).__name__
    return None


def _check_oneshot(dec, b, spec, kw, step_budget):
    """Returns None or a Violation."""
    from pyasn1 import error
    try:
        with budget.StepBudget(step_budget) as sb:
            out = dec.decode(b, asn1Spec=spec, **kw)
    except error.PyAsn1Error:
        return None
    except budget.Hang:
        return W.Violation('termination-bound-exceeded', mode='oneshot', steps=step_budget)
    except BaseException as ex:   # noqa
        if isinstance(ex, (KeyboardInterrupt, SystemExit)):
            raise
        d = W.describe_exc(ex)
        return W.Violation('non-library-exception', mode='oneshot', exc_cls=d['cls'], msg=d['msg'], site=d['site'])
    if not (isinstance(out, tuple) and len(out) == 2):
        return W.Violation('result-not-a-pair', mode='oneshot', what=U.safe_repr(out, 80))
    bad = _value_ok(out[0])
    if bad:
        return W.Violation('bad-value-returned', mode='oneshot', exc_cls=bad.split(':')[0], what=bad)
    if not isinstance(out[1], bytes):
        return W.Violation('remainder-not-bytes', mode='oneshot', what=type(out[1]).__name__)
    return None


def _sig(v):
    return [v.invariant, v.detail.get('mode'), v.detail.get('exc_cls'), v.detail.get('site')]


def execute(plan):
    if plan.get('exhaustive'):
        return _exhaustive(plan)
    ctr = {}
    trace = []
    wl = None
    try:
        wl = W.Workload(plan['workload'])
    except W.Skip as s:
        if 'raw_hex' not in plan:
            return common.skip_result(s.reason)
    if 'raw_hex' in plan:
        b = bytes.fromhex(plan['raw_hex'])
        valid = ()
    else:
        b = corrupt.apply(wl.stream, plan.get('corrupt', []))
        valid = (wl.stream,)
    if tlv.max_depth(b) > MAX_DEPTH:
        return common.skip_result('too-deep')
    decname = plan['decoder']
    if decname == 'own':
        decname = plan['workload']['decoder']
    dec = U.decoder_module(decname)
    kw = {}
    if plan['guide'] == 'own' and wl is not None:
        spec = wl.schema
        if plan['workload'].get('open_types'):
            kw['decodeOpenTypes'] = True
    elif plan['guide'] == 'neighbour':
        try:
            spec = U.build_schema(plan['neighbour'])
            if hasattr(spec, 'tagMap'):
                spec.tagMap
            if U.schema_problem(spec):
                return common.skip_result('neighbour-schema')
        except Exception:
            return common.skip_result('neighbour-schema')
    else:
        spec = None
    step_budget = 4000 * len(b) + 200000
    nontrivial = bool(b) and b not in valid
    ctr['decoder.%s' % decname] = 1
    ctr['guide.%s' % plan['guide']] = 1
    ctr['mode.%s' % plan['mode']] = 1
    for op in plan.get('corrupt', []):
        ctr['fault.corrupt.%s' % op[0]] = ctr.get('fault.corrupt.%s' % op[0], 0) + 1
    if 'raw_hex' in plan:
        ctr['input.random-structural'] = 1
    if plan['mode'] == 'oneshot':
        trace.append(['decode', decname, plan['guide'], len(b)])
        v = _check_oneshot(dec, b, spec, kw, step_budget)
        if v is not None:
            v.detail['input_hex'] = b.hex()[:400]
            return common.violation_result(v, _sig(v), trace, ctr, None, None, {'kind': 'bytes'}, None)
        return common.ok_result(trace, ctr, None, nontrivial)
    return _stream(plan, b, dec, spec, kw, step_budget, ctr, trace, nontrivial)


def _stream(plan, b, dec, spec, kw, step_budget, ctr, trace, nontrivial):
    from pyasn1 import error
    conf = plan['config']
    prev = streams.set_drop_threshold(conf.get('threshold'))
    try:
        st = W.open_stream(conf['kind'], b, trace)
        cons = W.Consumer(dec, st, spec, kw, trace=trace)
        read_budget = 16 * len(b) + 64 + 4 * len(plan['steps'])
        done = [False]

        def poll(idx, drained):
            try:
                with budget.StepBudget(step_budget):
                    kind, payload, starved = cons.poll()
            except budget.Hang:
                raise W.Violation('termination-bound-exceeded', mode='stream', steps=step_budget)
            if st.reads > read_budget:
                raise W.Violation('termination-bound-exceeded', mode='stream', reads=st.reads, read_budget=read_budget)
            if kind == W.UNDERRUN:
                return
            if kind == W.OBJ:
                bad = _value_ok(payload)
                if bad:
                    raise W.Violation('bad-value-returned', mode='stream', exc_cls=bad.split(':')[0], what=bad)
                return
            if kind == W.STOP:
                done[0] = True
                return
            if kind == W.ERR:
                done[0] = True
                if isinstance(payload, error.PyAsn1Error):
                    return
                d = W.describe_exc(payload)
                raise W.Violation('non-library-exception', mode='stream', exc_cls=d['cls'], msg=d['msg'], site=d['site'])
            raise W.Violation('bad-value-returned', mode='stream', exc_cls='not-an-asn1-object',
                              what='yielded %s' % (U.safe_repr(payload, 60)))

        try:
            for idx, step in enumerate(plan['steps']):
                if done[0]:
                    break
                op = step[0]
                if op == 'poll':
                    poll(idx, False)
                elif op == 'drain':
                    st.deliver_all()
                    st.disarm()
                    st.close_stream()
                    trace.append(['drain'])
                    for _ in range(len(b) // 2 + 4):
                        if done[0]:
                            break
                        poll(idx, True)
                    if not done[0]:
                        raise W.Violation('no-termination-after-drain', mode='stream', polls=cons.polls)
                else:
                    W.apply_step(step, st)
                    trace.append(list(step))
        except W.Violation as v:
            v.detail['input_hex'] = b.hex()[:400]
            return common.violation_result(v, _sig(v), trace, ctr, cons, st, conf, None)
        ctr['kind.%s' % conf['kind']] = 1
        ctr['polls'] = cons.polls
        ctr['reads'] = st.reads
        for k, v_ in st.fault_fired.items():
            ctr['fault.%s' % k] = v_
        return common.ok_result(trace, ctr, cons, nontrivial)
    finally:
        streams.set_drop_threshold(None)


def _exhaustive(plan):
    dec = U.decoder_module(plan['decoder'])
    spec = U.build_schema(plan['spec']) if plan['spec'] is not None else None
    first = plan['first']
    if plan.get('boundary_lengths'):
        strings = []
        lens = set()
        for base in (2 ** 15, 2 ** 16, 2 ** 31, 2 ** 32, 2 ** 63, 2 ** 64):
            for k in range(-18, 19):
                lens.add(base + k)
        for n in sorted(lens):
            ln = bytes.fromhex(corrupt._enc_len(n))
            for ident in (b'\x04', b'\x24', b'\x30', b'\x31', b'\xa0', b'\x13', b'\x03', b'\x06', b'\x1f\x21'):
                strings.append(ident + ln + b'\x05\x00' * 4)
                # the same element as the second component of a record / a member of a collection
                strings.append(b'\x30\x80\x06\x01\x2a' + ident + ln + b'\x05\x00' * 4)
                strings.append(b'\xa0\x80' + ident + ln + b'\x05\x00')
    elif plan.get('long_ints'):
        strings = []
        for tag_ in (0x02, 0x0a):
            for n in (300, 1785, 1790, 2000, 5000):
                for fill in (0x7f, 0xff, 0x80, 0x01):
                    body = bytes([fill]) + bytes([0x5a]) * (n - 1)
                    strings.append(bytes([tag_]) + bytes.fromhex(corrupt._enc_len(n)) + body)
    elif plan.get('real_text') is not None:
        strings = _real_text_strings(plan['real_text'], first, plan.get('max_len', 3))
    elif plan.get('fragments_of') is not None:
        strings = _fragment_strings(plan['fragments_of'], plan['form'])
        if plan.get('guided'):
            spec = U.build_schema(_fragment_spec(plan['fragments_of']))
    elif plan.get('content_of') is not None:
        t = plan['content_of']
        strings = []
        for n in (0, 1, 2):
            for rest in itertools.product(CONTENT_ALPHABET, repeat=n):
                body = bytes((first,) + rest)
                strings.append(bytes([t, len(body)]) + body)
                if t in (0x23, 0x24):       # constructed string: the content is one primitive fragment
                    inner = bytes([t & 0x1f, len(body)]) + body
                    strings[-1] = bytes([t, len(inner)]) + inner
        if first == CONTENT_ALPHABET[0]:
            strings.append(bytes([t, 0]))
    else:
        strings = [bytes([first])]
        for n in (1, 2):
            for rest in itertools.product(ALPHABET, repeat=n):
                strings.append(bytes((first,) + rest))
        if first == ALPHABET[0]:
            strings.append(b'')
    only = plan.get('only')
    ctr = {'exhaustive.strings': 0}
    trace = []
    for s in strings:
        if only is not None and s.hex() != only:
            continue
        ctr['exhaustive.strings'] += 1
        v = _check_oneshot(dec, s, spec, {}, 200000)
        if v is not None:
            v.detail['input_hex'] = s.hex()
            trace.append(['decode', s.hex()])
            res = common.violation_result(v, _sig(v), trace, ctr, None, None, {'kind': 'bytes'}, None)
            res['evals'] = ctr['exhaustive.strings']
            return res
    trace.append(['exhaustive', plan['decoder'], first, plan.get('fragments_of'), plan.get('form'), ctr['exhaustive.strings']])
    res = common.ok_result(trace, ctr, None, True)
    res['evals'] = ctr['exhaustive.strings']
    res['weight'] = ctr['exhaustive.strings']
    return res


def shrink_candidates(plan, detail=None):
    if plan.get('exhaustive'):
        if plan.get('only') is None and detail and detail.get('input_hex') is not None:
            c = copy.deepcopy(plan)
            c['only'] = detail['input_hex']
            yield c
        return
    if plan['mode'] == 'stream':
        c = copy.deepcopy(plan)
        c['mode'] = 'oneshot'
        c.pop('steps', None)
        c.pop('config', None)
        yield c
        steps = plan['steps']
        body, tail = steps[:-1], steps[-1:]
        n = len(body)
        size = max(1, n // 2)
        while size >= 1 and n:
            for lo in range(0, n, size):
                c = copy.deepcopy(plan)
                c['steps'] = body[:lo] + body[lo + size:] + tail
                yield c
            size //= 2
    if plan.get('corrupt') and len(plan['corrupt']) > 1:
        for i in range(len(plan['corrupt'])):
            c = copy.deepcopy(plan)
            del c['corrupt'][i]
            yield c
    if 'raw_hex' not in plan and detail and detail.get('input_hex') and len(detail['input_hex']) < 400:
        # freeze the damaged bytes: from here on shrink the byte string itself
        c = copy.deepcopy(plan)
        c['raw_hex'] = detail['input_hex']
        c.pop('corrupt', None)
        yield c
    if 'raw_hex' in plan:
        b = bytes.fromhex(plan['raw_hex'])
        n = len(b)
        size = n // 2
        while size >= 1:
            for lo in range(0, n, size):
                c = copy.deepcopy(plan)
                c['raw_hex'] = (b[:lo] + b[lo + size:]).hex()
                yield c
            size //= 2
    if plan['guide'] != 'none':
        c = copy.deepcopy(plan)
        c['guide'] = 'none'
        yield c
    if 'raw_hex' in plan:
        w = plan['workload']
        for nd, nvs in common.shrink_desc_values(w['desc'], w['values']):
            c = copy.deepcopy(plan)
            c['workload']['desc'] = nd
            c['workload']['values'] = nvs
            c['workload']['open_types'] = U.has_open(nd)
            yield c
