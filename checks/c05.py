"""C05 -- streaming decoder output is independent of the data arrival schedule.

System under simulation: one producer, one stream double, one consumer iterating
the real StreamingDecoder.  Oracle: invariants I1..I6 of DESIGN.md section 3
against the same code on the trivial schedule (all bytes present in a BytesIO).
"""
from simkit import plan as P, streams, tlv, universe as U, world as W
from checks import common

ID = 'C05'
LEVEL = 'exploration'
TIERS = {"quick": 40000, "thorough": 3000000}
BUDGET = {"quick": 120, "thorough": 1500}
SYSTEMATIC_CHUNK = 4
RULE = ('seeded plans: universe descriptor + 1..4 values + codec + stream kind + drop-threshold knob + '
        'deliver/poll/would-block/short-read/close steps, plus per-stream sweeps of every single split '
        'point; a run is non-trivial when at least one injected fault fired or at least one underrun '
        'suspension occurred; distinct = distinct plan digests among those')
ASSUMPTIONS = [
    'reference behaviour is the same code on the trivial schedule (all bytes in a plain BytesIO)',
    'workload items not yielding exactly one object per encoding on the trivial schedule are skipped',
    'a BytesIO subclass holds all bytes from the start (pyasn1 defines end-of-stream for BytesIO as position == size)',
]
REAL = ['pyasn1.codec.{ber,cer,der}.decoder (StreamingDecoder, SingleItemDecoder, payload decoders)',
        'pyasn1.codec.streaming (readFromStream, isEndOfStream, peekIntoStream, asSeekableStream, CachingStreamWrapper)',
        'pyasn1 encoders (to produce the streams)', 'pyasn1.type.*']
STUB = ['byte sources SimFile/SimBytesIO/SimPipe', 'producer (deliver/close/fault arming)',
        'consumer loop calling next()', 'io.DEFAULT_BUFFER_SIZE knob via module proxy']


def gen_plan(r, index, tier):
    w, cfg = common.gen_stream_workload(r, max_values=4)
    kind = r.choice(['file', 'file', 'pipe', 'pipe', 'bio', 'file', 'pipe', 'bio', 'bioqueue'])
    if kind == 'bioqueue':
        # a plain io.BytesIO used as a message queue: whole encodings are appended one (or a few) at a time and the
        # SAME decoder object is iterated again after every append
        return {'check': ID, 'workload': w, 'config': {'kind': 'bioqueue', 'threshold': None, 'prewrap': False},
                'batches': [r.choice([1, 1, 2]) for _ in range(6)], 'steps': []}
    conf = {'kind': kind, 'threshold': None, 'prewrap': False}
    if kind == 'pipe':
        conf['threshold'] = r.choice([4, 16, 64, 8192, 8192])
        conf['prewrap'] = r.random() < 0.5
        if r.random() < 0.3:
            # io.BufferedReader over the non-blocking double (os.fdopen() of a non-blocking descriptor)
            conf['buffered'] = r.choice([1, 3, 16, 8192])
    steps = ['SCHEDULE']   # placeholder resolved below (needs the stream length)
    pl = {'check': ID, 'workload': w, 'config': conf}
    # the schedule needs |s| and the structural points: build the stream once at generation time
    total, points = common.stream_shape(w)
    if total is None:
        pl['steps'] = [['drain']]
        return pl
    faults = [f for f in ('would_block', 'short') if r.random() < 0.75]
    if kind == 'bio':
        steps = common.gen_bio_schedule(r, total, faults)
    else:
        steps = W.gen_schedule(r, total, points, max_steps=r.choice([8, 24, 64]), faults=faults, idle=True)
        delivered = sum(s[2] for s in steps if s[0] == 'deliver')
        if delivered == total and r.random() < 0.5:
            # end-of-stream signalled together with the last byte
            steps.append(['close', 0])
            for _ in range(r.randrange(0, 3)):
                steps.append(['poll', 0])
        else:
            if delivered < total:
                steps.append(['deliver', 0, total - delivered])
            for _ in range(r.randrange(0, 4)):
                steps.append(['poll', 0])
    steps.append(['drain'])
    pl['steps'] = steps
    return pl


def _tiny_workload(r, max_len, tries=60):
    """A workload whose stream has between 2 and max_len octets (generation side; PRNG allowed)."""
    best, best_len = None, 0
    w = None
    for _ in range(tries):
        w, cfg = common.gen_stream_workload(r, max_values=2, small=True)
        for cand in (w, dict(w, values=w['values'][:1])):
            total, _pts = common.stream_shape(cand)
            if total is not None and 2 <= total <= max_len and total > best_len:
                best, best_len = cand, total
        if best_len >= max_len - 1:
            break
    return best or w


def systematic(tier):
    """Every single split point of a few fixed streams per tier."""
    from simkit import rng
    n = 12 if tier == 'quick' else 120
    out = []
    for j in range(n):
        r = rng.rng_for('C05-sweep', rng.verif_seed(), j)
        w, cfg = common.gen_stream_workload(r, max_values=2, small=True)
        kind = ['file', 'pipe'][j % 2]
        out.append({'check': ID, 'workload': w, 'sweep': True, 'timeout_s': 900,
                    'config': {'kind': kind, 'threshold': None if kind == 'file' else [16, 8192][(j // 2) % 2],
                               'prewrap': bool((j // 4) % 2)},
                    'steps': []})
    # every partition of short streams (exhaustive): tiny values of tiny types
    m = 16 if tier == 'quick' else 160
    for j in range(m):
        r = rng.rng_for('C05-partitions', rng.verif_seed(), j)
        w = _tiny_workload(r, 11 if tier == 'quick' else 13)
        kind = ['file', 'pipe', 'file'][j % 3]
        out.append({'check': ID, 'workload': w, 'partitions': True, 'timeout_s': 1800, 'max_len': 11 if tier == 'quick' else 13,
                    'close_with_last': bool(j % 2),
                    'config': {'kind': kind, 'threshold': None if kind == 'file' else 8192, 'prewrap': False},
                    'steps': []})
    # every placement of empty polls, would-block reads and short reads over every partition of very
    # short streams: per byte boundary one of {join, split, split + second empty poll, split with a
    # would-block read while the data is there, split with a short read, short read then empty poll}
    m2 = 24 if tier == 'quick' else 60
    for j in range(m2):
        r = rng.rng_for('C05-fault-partitions', rng.verif_seed(), j)
        w = _tiny_workload(r, 6 if tier == 'quick' else 8)
        kind = ['pipe', 'file', 'pipe'][j % 3]
        out.append({'check': ID, 'workload': w, 'fault_partitions': True, 'timeout_s': 1800, 'max_len': 6 if tier == 'quick' else 8,
                    'close_with_last': bool((j // 3) % 2),
                    'config': {'kind': kind, 'threshold': None if kind == 'file' else [8192, 4][(j // 3) % 2],
                               'prewrap': bool(j % 2) and kind == 'pipe'},
                    'steps': []})
    return out


N_BOUNDARY_OPTIONS = 6


def fault_partition_steps(total, code, close_with_last):
    """Explicit step list of one point of the exhaustive fault/partition space: `code` is a
    base-6 number with one digit per byte boundary."""
    steps = []
    size = 1
    for b in range(total - 1):
        opt = code % N_BOUNDARY_OPTIONS
        code //= N_BOUNDARY_OPTIONS
        if opt == 0:
            size += 1
            continue
        steps.append(['deliver', 0, size])
        size = 1
        if opt == 3:
            steps.append(['arm', 0, 'would_block', 1])
        elif opt in (4, 5):
            steps.append(['arm', 0, 'short', 1])
        steps.append(['poll', 0])
        if opt in (2, 5):
            steps.append(['poll', 0])
    steps.append(['deliver', 0, size])
    if close_with_last:
        steps.append(['close', 0])
    steps += [['poll', 0], ['drain']]
    return steps


def _execute_queue(plan):
    import io
    from pyasn1 import error
    try:
        wl = W.Workload(plan['workload'])
        wl.require_well_framed()
        ref = wl.reference()
        if len(ref) != len(wl.encodings):
            raise W.Skip('reference-count')
    except W.Skip as s:
        return common.skip_result(s.reason)
    trace = []
    ctr = {'kind.bioqueue': 1}
    q = io.BytesIO()
    decoder = wl.dec_mod.StreamingDecoder(q, asn1Spec=wl.spec, **wl.dec_kw)
    got = []
    i = 0
    batches = list(plan.get('batches') or [1])
    try:
        while i < len(wl.encodings):
            k = batches[len(trace) % len(batches)]
            chunk = b''.join(wl.encodings[i:i + k])
            i += k
            pos = q.tell()
            q.seek(0, 2)
            q.write(chunk)
            q.seek(pos)
            trace.append(['append', len(chunk)])
            try:
                for x in decoder:              # a new iteration over the same decoder object
                    if isinstance(x, error.SubstrateUnderrunError):
                        raise W.Violation('I1-unjustified-underrun', got=len(got))
                    a = U.absval(x)
                    if len(got) >= len(ref) or a != ref[len(got)]:
                        raise W.Violation('I2-wrong-object', index=len(got), got=U.safe_repr(U.jsonable(a)))
                    got.append(a)
            except W.Violation:
                raise
            except Exception as ex:
                d = W.describe_exc(ex)
                raise W.Violation('I5-spurious-error', exc_cls=d['cls'], msg=d['msg'], site=d['site'])
            trace.append(['drained', len(got)])
            if len(got) != min(i, len(ref)):
                raise W.Violation('I4-early-stop', got=len(got), expected=min(i, len(ref)), appended=i)
    except W.Violation as v:
        sig = [v.invariant, v.detail.get('exc_cls'), v.detail.get('site')]
        return common.violation_result(v, sig, trace, ctr, None, None, plan['config'], wl)
    ctr['objects_in_streams'] = len(ref)
    return common.ok_result(trace, ctr, None, len(trace) > 2)


def execute(plan):
    if plan.get('config', {}).get('kind') == 'bioqueue':
        return _execute_queue(plan)
    if plan.get('fault_partitions'):
        return _execute_fault_partitions(plan)
    if plan.get('sweep'):
        return _execute_sweep(plan)
    if plan.get('partitions'):
        return _execute_partitions(plan)
    return _execute_one(plan)


def _execute_fault_partitions(plan):
    try:
        wl = W.Workload(plan['workload'])
    except W.Skip as s:
        return common.skip_result(s.reason)
    total = len(wl.stream)
    if total > plan.get('max_len', 7) or total < 2:
        return common.skip_result('not-short')
    agg = None
    n = 0
    for code in range(N_BOUNDARY_OPTIONS ** (total - 1)):
        sub = dict(plan)
        sub.pop('fault_partitions')
        sub['steps'] = fault_partition_steps(total, code, plan.get('close_with_last'))
        res = _execute_one(sub, wl)
        n += 1
        if res['status'] == 'violation':
            res['detail'] = dict(res['detail'], fault_partition_code=code, explicit_steps=sub['steps'])
            res['evals'] = n
            return res
        if res['status'] == 'skip':
            return res
        if agg is None:
            agg = res
        else:
            common.merge_result(agg, res)
    if agg is None:
        return common.skip_result('empty-stream')
    agg['evals'] = n
    agg['weight'] = n
    agg['counters']['probe.exhaustive_fault_partitions'] = n
    return agg


def _execute_partitions(plan):
    """Every one of the 2^(|s|-1) partitions of a short stream into chunks, with a poll after
    each chunk (the quantifier's 'exhaustively for short s')."""
    try:
        wl = W.Workload(plan['workload'])
    except W.Skip as s:
        return common.skip_result(s.reason)
    total = len(wl.stream)
    if total > plan.get('max_len', 11) or total < 2:
        return common.skip_result('not-short')
    only = plan.get('only_mask')
    agg = None
    n = 0
    for mask in ([only] if only is not None else range(1 << (total - 1))):
        steps = []
        size = 1
        for bit in range(total - 1):
            if mask >> bit & 1:
                steps += [['deliver', 0, size], ['poll', 0]]
                size = 1
            else:
                size += 1
        steps += [['deliver', 0, size], ['poll', 0]]
        if plan.get('close_with_last'):
            steps.insert(len(steps) - 1, ['close', 0])
        steps.append(['drain'])
        sub = dict(plan)
        sub.pop('partitions')
        sub['steps'] = steps
        res = _execute_one(sub, wl)
        n += 1
        if res['status'] == 'violation':
            res['detail'] = dict(res['detail'], partition_mask=mask, explicit_steps=steps)
            res['evals'] = n
            return res
        if res['status'] == 'skip':
            return res
        if agg is None:
            agg = res
        else:
            common.merge_result(agg, res)
    if agg is None:
        return common.skip_result('empty-stream')
    agg['evals'] = n
    agg['weight'] = n
    agg['counters']['probe.exhaustive_partitions'] = n
    return agg


def _execute_sweep(plan):
    try:
        wl = W.Workload(plan['workload'])
    except W.Skip as s:
        return common.skip_result(s.reason)
    total = len(wl.stream)
    agg = None
    for k in range(1, total):
        sub = dict(plan)
        sub.pop('sweep')
        sub['steps'] = [['deliver', 0, k], ['poll', 0], ['poll', 0], ['drain']]
        res = _execute_one(sub, wl)
        if res['status'] == 'violation':
            res['detail'] = dict(res['detail'], sweep_k=k)
            return res
        if agg is None:
            agg = res
        else:
            common.merge_result(agg, res)
        if res['status'] == 'skip':
            return res
    return agg or common.skip_result('empty-stream')


def _execute_one(plan, wl=None):
    trace = []
    ctr = {}
    conf = plan['config']
    try:
        if wl is None:
            wl = W.Workload(plan['workload'])
        wl.require_well_framed()
        ref = wl.reference()
        if len(ref) != len(wl.encodings):
            raise W.Skip('reference-count')
    except W.Skip as s:
        return common.skip_result(s.reason)
    n = len(ref)
    prev = streams.set_drop_threshold(conf.get('threshold'))
    try:
        st = W.open_stream(conf['kind'], wl.stream, trace)
        cons = W.Consumer(wl.dec_mod, st, wl.spec, wl.dec_kw, trace=trace,
                          prewrap=conf.get('prewrap', False), buffered=conf.get('buffered'))
        if conf.get('buffered'):
            ctr['knob.buffered_reader.%s' % conf['buffered']] = 1
        state = {'got': 0, 'closed': conf['kind'] == 'bio', 'stopped': False, 'underruns': 0}
        try:
            for idx, step in enumerate(plan['steps']):
                op = step[0]
                if op == 'idle':
                    ctr['fault.idle_polls'] = ctr.get('fault.idle_polls', 0) + step[2]
                    for _ in range(step[2]):
                        if state['stopped']:
                            break
                        st.arm('would_block', None)
                        _poll(cons, st, state, ref, n, idx, ctr, wl, drained=False)
                    st.disarm()
                    trace.append(list(step))
                elif op == 'poll':
                    if state['stopped']:
                        continue
                    _poll(cons, st, state, ref, n, idx, ctr, wl, drained=False)
                elif op == 'drain':
                    st.deliver_all()
                    st.disarm()
                    st.close_stream()
                    state['closed'] = True
                    trace.append(['drain'])
                    budget = (n - state['got']) + 2
                    for _ in range(budget):
                        if state['stopped']:
                            break
                        _poll(cons, st, state, ref, n, idx, ctr, wl, drained=True)
                    if not state['stopped']:
                        raise W.Violation('I6-no-stop-after-drain', got=state['got'], expected=n)
                else:
                    if op == 'close':
                        if st.d < len(st.s):
                            # end-of-stream before the last byte is truncated input (C06), not an arrival
                            # schedule of s; only the shrinker can produce such a plan
                            return common.skip_result('invalid-schedule:close-before-last-byte')
                        state['closed'] = True
                    W.apply_step(step, st)
                    trace.append(list(step))
            if state['stopped'] and state['got'] != n:
                raise W.Violation('I4-early-stop', got=state['got'], expected=n)
        except W.Violation as v:
            sig = [v.invariant, v.detail.get('exc_cls'), v.detail.get('site')]
            return common.violation_result(v, sig, trace, ctr, cons, st, conf, wl)
        common.count_run(ctr, cons, st, conf, wl)
        nontrivial = bool(state['underruns'] or sum(st.fault_fired.values()))
        return common.ok_result(trace, ctr, cons, nontrivial)
    finally:
        streams.set_drop_threshold(None if prev is None else None)


def _poll(cons, st, state, ref, n, idx, ctr, wl, drained):
    kind, payload, starved = cons.poll()
    if kind == W.UNDERRUN:
        state['underruns'] += 1
        if not starved:
            raise W.Violation('I1-unjustified-underrun', step=idx, delivered=st.d, got=state['got'])
        if drained:
            raise W.Violation('I6-underrun-after-drain', step=idx, got=state['got'])
        common.probe_cut(ctr, wl, st.d)
    elif kind == W.OBJ:
        a = U.absval(payload)
        if state['got'] >= n:
            raise W.Violation('I2-extra-object', step=idx, got=state['got'])
        if a != ref[state['got']]:
            raise W.Violation('I2-wrong-object', step=idx, index=state['got'],
                              got=U.safe_repr(U.jsonable(a)), want=U.safe_repr(U.jsonable(ref[state['got']])))
        state['got'] += 1
    elif kind in (W.NONE, W.OTHER):
        raise W.Violation('I3-non-object-yielded', step=idx, what=U.safe_repr(payload, 80),
                          delivered=st.d, total=len(st.s), closed=state['closed'])
    elif kind == W.STOP:
        state['stopped'] = True
        if not state['closed']:
            raise W.Violation('I4-stop-while-open', step=idx, got=state['got'], expected=n,
                              delivered=st.d, total=len(st.s))
        if state['got'] != n:
            raise W.Violation('I4-early-stop', step=idx, got=state['got'], expected=n)
    elif kind == W.ERR:
        d = W.describe_exc(payload)
        raise W.Violation('I5-spurious-error', step=idx, exc_cls=d['cls'], msg=d['msg'], site=d['site'],
                          delivered=st.d, total=len(st.s), closed=state['closed'], drained=drained)


def shrink_candidates(plan, detail=None):
    if (plan.get('fault_partitions') or plan.get('partitions')) and detail and detail.get('explicit_steps'):
        # one point of an exhaustive space: continue with its explicit step list
        c = {k: v for k, v in plan.items() if k not in ('fault_partitions', 'partitions', 'max_len',
                                                         'close_with_last', 'only_mask')}
        c['steps'] = detail['explicit_steps']
        yield c
        return
    if plan.get('fault_partitions'):
        return
    for c in common.stream_shrink_candidates(plan):
        yield c
