"""C07 -- decoding consumes exactly one encoding and preserves what follows.

(a) one-shot decode(e || t) for tails t; (b) a stream of n encodings read by the
streaming decoder under the C05 schedule/fault space, with the logical stream
position checked after every object (known from construction, no parser involved).
"""
import copy

from simkit import plan as P, streams, tlv, universe as U, world as W
from checks import common

ID = 'C07'
LEVEL = 'exploration'
TIERS = {"quick": 60000, "thorough": 5000000}
BUDGET = {'quick': 120, 'thorough': 1500}
RULE = ('seeded plans, two modes. oneshot: descriptor + value + codec, decode(e||t) for every t in {empty, 0000, 00x5, '
        'another encoding, seeded garbage}; evaluations count (e,t) pairs. stream: 1..4 encodings back to back under a seeded '
        'deliver/poll/fault schedule, position asserted after each yielded object (tell() on seekable doubles; hand-off read of '
        'the rest of the substrate after object k on the non-seekable one). non-trivial: a non-empty tail was preserved, or a '
        'position was asserted at an inner boundary; distinct = distinct plan digests among those')
ASSUMPTIONS = [
    'e is the output of the library encoder for a value of U and one-shot decode(e) returns a value (else skipped)',
    'the boundaries are known from construction: len(e1)+...+len(ek)',
]
REAL = ['pyasn1 encoders', 'pyasn1.codec.{ber,cer,der}.decoder', 'pyasn1.codec.streaming', 'pyasn1.type.*']
STUB = ['byte sources SimFile/SimBytesIO/SimPipe', 'producer', 'consumer loop', 'drop-threshold knob']


def gen_plan(r, index, tier):
    mode = 'oneshot' if r.random() < 0.45 else 'stream'
    # explicitly tagged primitives in indefinite mode are named in the property's quantifier: keep them in
    w, cfg = common.gen_stream_workload(r, max_values=1 if mode == 'oneshot' else 4, allow_f2=True)
    pl = {'check': ID, 'mode': mode, 'workload': w}
    if mode == 'oneshot':
        garbage = bytes(r.randrange(256) for _ in range(r.choice([1, 2, 7, 40]))).hex()
        other = U.gen_value(r, w['desc'], U.ValCfg(small=True))
        pl['tails'] = [['empty', ''], ['eoo', '0000'], ['zeros5', '0000000000'], ['garbage', garbage],
                       ['another-encoding', {'value': other}]]
        return pl
    kind = r.choice(['file', 'file', 'pipe', 'bio'])
    conf = {'kind': kind, 'threshold': None, 'prewrap': kind == 'pipe'}
    if kind == 'pipe':
        conf['threshold'] = r.choice([16, 64, 8192, 8192, 8192])
    pl['config'] = conf
    total, points = common.stream_shape(w)
    if total is None:
        pl['steps'] = [['drain']]
        return pl
    faults = [f for f in ('would_block', 'short') if r.random() < 0.6]
    if kind == 'bio':
        steps = common.gen_bio_schedule(r, total, faults)
    else:
        steps = W.gen_schedule(r, total, points, max_steps=r.choice([8, 24, 64]), faults=faults)
    steps.append(['drain'])
    pl['steps'] = steps
    if kind == 'pipe':
        pl['handoff_at'] = r.randrange(1, len(w['values']) + 1)
    return pl


def systematic(tier):
    """Very long elements: lengths that need three and four length octets, with the top bit of the first
    length octet set and clear (8 MiB, 16 MiB - 1, 16 MiB)."""
    out = []
    sizes = [0x800000, 9000000] if tier == 'quick' else [0x7fffff, 0x800000, 0x800001, 9000000, 0xffffff, 0x1000000]
    for i, n in enumerate(sizes):
        big = {'k': 'OCTETSTRING', 'tags': []}
        val = {'rep': '5a', 'n': n}
        if i % 2:
            desc = {'k': 'SEQ', 'tags': [], 'fields': [{'n': 'a', 'd': {'k': 'INTEGER', 'tags': []}, 'opt': 'R'},
                                                       {'n': 'b', 'd': big, 'opt': 'R'}]}
            value = {'a': 5, 'b': val}
        else:
            desc, value = big, val
        codec = ['der', 'ber'][i % 2]
        w = {'desc': desc, 'values': [value], 'codec': codec, 'decoder': common.decoder_for(codec),
             'use_spec': i % 3 != 2, 'open_types': False}
        out.append({'check': ID, 'mode': 'oneshot', 'workload': w, 'huge': n, 'timeout_s': 900, 'must_decode': True,
                    'tails': [['empty', ''], ['eoo', '0000'], ['garbage', 'ff30']]})
        w2 = dict(w, values=[value, value])
        out.append({'check': ID, 'mode': 'stream', 'workload': w2, 'huge': n, 'timeout_s': 900, 'must_decode': True,
                    'config': {'kind': 'file', 'threshold': None, 'prewrap': False},
                    'steps': [['deliver', 0, 5], ['poll', 0], ['deliver', 0, n], ['poll', 0], ['drain']]})
    return out


SYSTEMATIC_CHUNK = 1


def execute(plan):
    try:
        wl = W.Workload(plan['workload'])
    except W.Skip as s:
        return common.skip_result(s.reason)
    if plan['mode'] == 'oneshot':
        return _oneshot(plan, wl)
    return _stream(plan, wl)


def _wants_more_than_the_encoding(ex, e):
    """decode(e) of a complete, well-framed (independent scanner) encoding answering "insufficient
    data" means the decoder tried to read past the end of that encoding: over-consumption, which is
    what this property is about even when nothing follows e.  (Other rejections of valid encodings
    are round-trip defects of unclaimed C01/C09 and stay preconditions.)"""
    from pyasn1 import error
    if isinstance(ex, error.SubstrateUnderrunError) and tlv.well_framed(e):
        return W.Violation('complete-encoding-reported-as-insufficient-data', tail_kind='none',
                           exc_cls=type(ex).__name__, site=W.exc_site(ex), encoding_hex=e.hex()[:300])
    return None


def _rejected(ex, e):
    """Catalogue shapes whose validity is beyond doubt (a plain OCTET STRING, SEQUENCE {INTEGER, OCTET STRING}; the
    scale shapes: wide records, long collections, many alternatives, tag stacks over plain leaves) and that decode
    at every smaller size or count: a rejection can only come from the length / count / consumption bookkeeping."""
    return W.Violation('plain-shape-rejected-at-this-scale', tail_kind='none', exc_cls=type(ex).__name__,
                       site=W.exc_site(ex), msg=str(ex)[:120], length=len(e))


def bad_result(v, wl, e):
    return common.violation_result(v, _sig(v), [['decode', 'none', len(e)]], {}, None, None, {'kind': 'bytes'}, wl)


def _sig(v):
    return [v.invariant, v.detail.get('tail_kind'), v.detail.get('exc_cls'), v.detail.get('site')]


def _oneshot(plan, wl):
    ctr = {}
    trace = []
    e = wl.encodings[0]
    dec = wl.dec_mod
    try:
        ref_v, ref_rest = dec.decode(e, asn1Spec=wl.spec, **wl.dec_kw)
    except Exception as ex:
        bad = _wants_more_than_the_encoding(ex, e)
        if bad:
            return bad_result(bad, wl, e)
        if plan.get('must_decode') or plan['workload'].get('scale'):
            return bad_result(_rejected(ex, e), wl, e)
        return common.skip_result('reference:%s' % type(ex).__name__)
    if not isinstance(ref_v, U.p.base.Asn1Item):
        return common.skip_result('reference-non-object')
    ref = U.absval(ref_v)
    evals = 0
    nontrivial = False
    try:
        if ref_rest != b'':
            raise W.Violation('nonempty-remainder-without-tail', tail_kind='none', remainder=bytes(ref_rest).hex()[:80])
        for name, t in plan['tails']:
            if isinstance(t, dict):
                try:
                    t = wl.enc_mod.encode(U.build_value(wl.schema, wl.desc, t['value']), **wl.enc_opts)
                except Exception:
                    continue
            else:
                t = bytes.fromhex(t)
            evals += 1
            trace.append(['decode', name, len(t)])
            try:
                v, rest = dec.decode(e + t, asn1Spec=wl.spec, **wl.dec_kw)
            except Exception as ex:
                d = W.describe_exc(ex)
                raise W.Violation('error-with-tail', tail_kind=name, exc_cls=d['cls'], msg=d['msg'], site=d['site'],
                                  tail=t.hex()[:80])
            if not isinstance(rest, bytes) or rest != t:
                raise W.Violation('remainder-differs', tail_kind=name, want=t.hex()[:120],
                                  got=(bytes(rest).hex()[:120] if isinstance(rest, (bytes, bytearray)) else U.safe_repr(rest, 80)))
            if U.absval(v) != ref:
                raise W.Violation('value-differs-with-tail', tail_kind=name)
            if t:
                nontrivial = True
    except W.Violation as v:
        v.detail['encoding_hex'] = e.hex()[:400]
        res = common.violation_result(v, _sig(v), trace, ctr, None, None, {'kind': 'bytes'}, wl)
        res['evals'] = max(1, evals)
        return res
    common.count_run(ctr, None, None, {'kind': 'bytes'}, wl)
    ctr['mode.oneshot'] = 1
    if wl.codec_name != 'ber' and wl.codec_name != 'der' and not wl.codec_name.startswith('ber-chunk') \
            and U.has_exp_tagged_nonstring_prim(wl.desc):
        ctr['probe.exp_tagged_prim_indef_mode'] = 1
    if e[-2:] == b'\x00\x00' and len(e) > 2 and e[1] == 0x80:
        ctr['probe.encoding_ends_in_eoo'] = 1
    res = common.ok_result(trace, ctr, None, nontrivial)
    res['evals'] = max(1, evals)
    return res


def _stream(plan, wl):
    trace = []
    ctr = {}
    conf = plan['config']
    n = len(wl.encodings)
    # precondition: each encoding decodes one-shot to a value (remainder is the thing under test)
    refs = []
    for e in wl.encodings:
        try:
            v, rest = wl.dec_mod.decode(e, asn1Spec=wl.spec, **wl.dec_kw)
        except Exception as ex:
            bad = _wants_more_than_the_encoding(ex, e)
            if bad:
                return bad_result(bad, wl, e)
            if plan.get('must_decode') or plan['workload'].get('scale'):
                return bad_result(_rejected(ex, e), wl, e)
            return common.skip_result('reference:%s' % type(ex).__name__)
        if not isinstance(v, U.p.base.Asn1Item):
            return common.skip_result('reference-non-object')
        refs.append(U.absval(v))
    handoff_at = plan.get('handoff_at')
    prev = streams.set_drop_threshold(conf.get('threshold'))
    asserted_inner = [False]
    try:
        st = W.open_stream(conf['kind'], wl.stream, trace)
        cons = W.Consumer(wl.dec_mod, st, wl.spec, wl.dec_kw, trace=trace, prewrap=(conf['kind'] == 'pipe'))
        state = {'got': 0, 'stopped': False}

        def poll(idx, drained):
            kind, payload, starved = cons.poll()
            if kind == W.UNDERRUN:
                return
            if kind == W.OBJ:
                k = state['got']
                if k >= n:
                    raise W.Violation('extra-object', step=idx, got=k)
                if U.absval(payload) != refs[k]:
                    raise W.Violation('object-differs', step=idx, index=k)
                state['got'] += 1
                want = wl.bounds[k]
                if conf['kind'] in ('file', 'bio'):
                    pos = st.position()
                    if pos != want:
                        raise W.Violation('position-after-object', step=idx, index=k, want=want, got=pos)
                    if k < n - 1:
                        asserted_inner[0] = True
                elif handoff_at == k + 1:
                    # hand-off: whoever reads the substrate next must see exactly the rest
                    st.deliver_all()
                    st.disarm()
                    st.close_stream()
                    rest = cons.substrate.read()
                    trace.append(['handoff', k, len(rest or b'')])
                    if rest is None:
                        rest = b''
                    if rest != wl.stream[want:]:
                        raise W.Violation('handoff-bytes-differ', step=idx, index=k, want_len=len(wl.stream) - want,
                                          got_len=len(rest), want=wl.stream[want:].hex()[:80], got=rest.hex()[:80])
                    if k < n - 1:
                        asserted_inner[0] = True
                    state['stopped'] = True
                return
            if kind == W.STOP:
                state['stopped'] = True
                if state['got'] != n:
                    raise W.Violation('one-object-per-encoding', step=idx, got=state['got'], expected=n)
                return
            if kind == W.ERR:
                d = W.describe_exc(payload)
                raise W.Violation('error-on-valid-stream', step=idx, exc_cls=d['cls'], msg=d['msg'], site=d['site'])
            raise W.Violation('non-object-yielded', step=idx, what=U.safe_repr(payload, 80))

        try:
            for idx, step in enumerate(plan['steps']):
                if state['stopped']:
                    break
                op = step[0]
                if op == 'poll':
                    poll(idx, False)
                elif op == 'drain':
                    st.deliver_all()
                    st.disarm()
                    st.close_stream()
                    trace.append(['drain'])
                    for _ in range(n - state['got'] + 2):
                        if state['stopped']:
                            break
                        poll(idx, True)
                    if not state['stopped']:
                        raise W.Violation('no-stop-after-drain', got=state['got'], expected=n)
                else:
                    W.apply_step(step, st)
                    trace.append(list(step))
        except W.Violation as v:
            return common.violation_result(v, _sig(v), trace, ctr, cons, st, conf, wl)
        common.count_run(ctr, cons, st, conf, wl)
        ctr['mode.stream'] = 1
        if asserted_inner[0]:
            ctr['probe.inner_boundary_asserted'] = 1
        return common.ok_result(trace, ctr, cons, asserted_inner[0])
    finally:
        streams.set_drop_threshold(None)


def shrink_candidates(plan):
    if plan['mode'] == 'stream':
        for c in common.stream_shrink_candidates(plan):
            if 'handoff_at' in c:
                c['handoff_at'] = min(c['handoff_at'], len(c['workload']['values']))
            yield c
        if plan.get('handoff_at', 1) > 1:
            c = copy.deepcopy(plan)
            c['handoff_at'] -= 1
            yield c
        return
    if len(plan['tails']) > 1:
        for i in range(len(plan['tails'])):
            c = copy.deepcopy(plan)
            c['tails'] = [plan['tails'][i]]
            yield c
    w = plan['workload']
    if w['codec'] not in ('ber',):
        c = copy.deepcopy(plan)
        c['workload']['codec'] = 'ber'
        c['workload']['decoder'] = 'ber'
        yield c
    for nd, nvs in common.shrink_desc_values(w['desc'], w['values']):
        c = copy.deepcopy(plan)
        c['workload']['desc'] = nd
        c['workload']['values'] = nvs
        c['workload']['open_types'] = U.has_open(nd)
        c['tails'] = [t for t in c['tails'] if not isinstance(t[1], dict)] or c['tails']
        yield c
