"""C19 -- container objects refine their Python prototypes under any operation history.

History-world: one container object and a plain Python list/dict model are driven
by the same seeded operation sequence (mutators, readers, and ill-formed operations
as the injected faults).  After EVERY step the object's observables are compared
with the model; a reader must leave them unchanged; an ill-formed operation must
raise a lookup or library error and change nothing.  There is no concurrency here:
the "schedule" is the operation history (see DESIGN.md, C19).
"""
import copy

from simkit import plan as P, universe as U, world as W
from checks import common

ID = 'C19'
LEVEL = 'exploration'
TIERS = {'quick': 30000, 'thorough': 2000000}
BUDGET = {'quick': 150, 'thorough': 1500}
RULE = ('seeded operation histories (5-30 ops) over SEQUENCE OF/SET OF (with and without component type), SEQUENCE/SET with '
        'declared fields, CHOICE, and valueless scalar objects; ops drawn from mutators, readers and ill-formed operations; '
        'evaluations = operations applied; non-trivial: at least one mutator and one later reader or ill-formed op were applied; '
        'distinct = distinct plan digests among those')
ASSUMPTIONS = [
    'which operations are well-formed, and their list/dict meaning, is fixed from the docstrings in univ.py (DESIGN.md appendix B)',
    'observation uses only non-instantiating accessors (getComponentByPosition(i, default=None, instantiate=False), len, isValue, DER encode)',
    'SEQUENCE/SET len()/iter()/in are asserted relatively (unchanged by reads and by failed ill-formed operations), content/isValue/DER absolutely',
]
REAL = ['pyasn1.type.univ containers (SequenceOf, SetOf, Sequence, Set, Choice) and scalar types', 'pyasn1.type.base.NoValue sentinel',
        'pyasn1.codec.der.encoder (as an observable)']
STUB = ['Python list/dict reference model', 'operation history generator']

HOLE = '__HOLE__'

ELEMS = [
    {'k': 'INTEGER', 'tags': []},
    {'k': 'OCTETSTRING', 'tags': []},
    {'k': 'BOOLEAN', 'tags': []},
    {'k': 'UTF8', 'tags': []},
    {'k': 'SEQ', 'tags': [], 'fields': [{'n': 'a', 'd': {'k': 'INTEGER', 'tags': []}, 'opt': 'R'}]},
    {'k': 'SEQOF', 'tags': [], 'of': {'k': 'INTEGER', 'tags': []}},
]


def _elem_value(r, d):
    return U.gen_value(r, d, U.ValCfg(small=True))


# ---------------------------------------------------------------------------
# plan generation

def gen_plan(r, index, tier):
    kind = r.choice(['OF', 'OF', 'OF', 'REC', 'REC', 'CHOICE', 'SCALAR', 'DYN'])
    if kind == 'OF':
        return _gen_of(r)
    if kind == 'DYN':
        return _gen_dyn(r)
    if kind == 'REC':
        return _gen_rec(r)
    if kind == 'CHOICE':
        return _gen_choice(r)
    return _gen_scalar(r)


def _gen_of(r):
    elem = r.choice(ELEMS)
    typed = r.random() < 0.8
    desc = {'k': r.choice(['SEQOF', 'SETOF']), 'tags': [], 'of': elem}
    start = None
    if typed and r.random() < 0.2:
        # a SIZE-constrained collection, in a fifth of these obtained from the decoder instead of built by hand
        lo = r.choice([1, 1, 2])
        desc['con'] = {'size': [lo, lo + r.choice([0, 2, 5])]}
        if r.random() < 0.5 and desc['k'] == 'SEQOF':       # (DER reorders the members of a SET OF)
            start = [_elem_value(r, elem) for _ in range(lo)]
    ops = []
    n_ops = r.choice([5, 12, 30])
    mlen = 0      # rough model length for argument generation only
    # swarm: operation kinds that hit open findings (F9a far index, F9g resizing slice, F9f ==) are
    # enabled in a minority of runs only, so that most histories run to their end
    allow_far = r.random() < 0.25
    allow_resize = r.random() < 0.25
    allow_eq = r.random() < 0.3
    if r.random() < 0.03 and elem['k'] in U.PRIMS:
        # a long collection: the history starts from tens to a thousand members
        big = r.choice([33, 130, 257, 1030])
        pool = [_elem_value(r, elem) for _ in range(3)]
        ops.append(['extend', [r.choice(pool) for _ in range(big)]])
        mlen = big
        n_ops = min(n_ops, 8)
    for _ in range(n_ops):
        x = r.random()
        if x < 0.45:
            m = r.choice(['append', 'append', 'extend', 'setitem', 'setitem', 'setslice', 'sort', 'reverse',
                          'clear', 'reset', 'clone', 'read_at_len', 'nested_mut', 'nested_mut', 'nested_clear'])
            if m in ('nested_mut', 'nested_clear') and elem['k'] not in ('SEQ', 'SEQOF'):
                m = 'append'
            if m == 'append':
                ops.append(['append', _elem_value(r, elem), r.choice([False, False, False, True, True, 'narrow'])])
                mlen += 1
            elif m == 'extend':
                vs = [_elem_value(r, elem) for _ in range(r.randrange(0, 4))]
                # any iterable will do for list.extend: a list, a tuple, a one-shot iterator, a generator
                ops.append(['extend', vs, r.choice(['list', 'list', 'tuple', 'iter', 'gen'])])
                mlen += len(vs)
            elif m == 'setitem':
                ops.append(['setitem', r.randrange(-mlen, mlen + 1) if mlen else 0, _elem_value(r, elem),
                            r.choice([False, False, True, True, 'narrow'])])
                mlen += 0
            elif m == 'setslice':
                a = r.randrange(0, mlen + 1)
                b = r.randrange(a, mlen + 1)
                same = r.random() < 0.7 or not allow_resize
                if not allow_resize and b == a:
                    if a >= mlen:
                        ops.append(['append', _elem_value(r, elem), False])
                        mlen += 1
                        continue
                    b = a + 1
                cnt = (b - a) if same else r.randrange(0, 4)
                kind_ = 'setslice' if (same and b > a) else 'setslice_resize'
                pa, pb = a, b
                if mlen and r.random() < 0.35:
                    # the same slice written the other ways Python allows: negative bounds, omitted stop
                    pa = a - mlen if r.random() < 0.7 else a
                    pb = None if (b == mlen and r.random() < 0.6) else (b - mlen if (b < mlen and r.random() < 0.5) else b)
                ops.append([kind_, pa, pb, [_elem_value(r, elem) for _ in range(cnt)]])
                mlen += cnt - (b - a)
            elif m == 'sort':
                ops.append(['sort', r.random() < 0.4, r.choice(['full', 'coarse', 'coarse', 'const'])])
            elif m == 'nested_mut':
                ops.append(['nested_mut', r.randrange(8), r.choice([0, 1, -1, 70000])])
            elif m == 'nested_clear':
                # a member obtained by a plain read is emptied (clear) or turned back into a schema (reset); the
                # status of the collection is often looked at just before, so that anything remembered is stale
                if r.random() < 0.6:
                    ops.append([r.choice(['isValue', 'encode', 'prettyPrint'])])
                ops.append(['nested_clear', r.randrange(8), r.choice(['clear', 'reset'])])
            elif m == 'clone':
                ops.append(['clone', r.random() < 0.7])
            elif m in ('clear', 'reset'):
                ops.append([m])
                mlen = 0
            else:
                ops.append([m])
                if m == 'read_at_len':
                    mlen += 1
        elif x < 0.85:
            rd = r.choice(['len', 'iter', 'contains', 'getitem', 'getslice', 'get_noinst', 'count', 'index',
                           'prettyPrint', 'eq_self', 'encode', 'isValue'])
            if rd == 'eq_self' and not allow_eq:
                rd = 'encode'
            if rd in ('getitem', 'get_noinst'):
                ops.append([rd, r.randrange(-mlen, mlen) if mlen else 0])
            elif rd == 'getslice':
                a = r.randrange(0, mlen + 1)
                ops.append([rd, a, r.randrange(a, mlen + 2)])
            elif rd in ('contains', 'count', 'index'):
                ops.append([rd, _elem_value(r, elem), r.randrange(8)])
            else:
                ops.append([rd])
        else:
            bad = r.choice(['getitem_far', 'getitem_neg_far', 'setitem_far', 'setitem_bad_type', 'index_absent'])
            if bad in ('getitem_far', 'setitem_far') and not allow_far:
                bad = r.choice(['getitem_neg_far', 'setitem_bad_type', 'index_absent'])
            ops.append([bad, r.choice([1, 2, 5])])
    pl = {'check': ID, 'kind': 'OF', 'desc': desc, 'typed': typed, 'ops': ops}
    if start is not None:
        pl['start_decoded'] = start
    return pl


def _gen_dyn(r):
    """SEQUENCE/SET without declared components: positions are dynamic fields 'field-N', the only
    documented way to grow is assigning position len."""
    elems = [ELEMS[0], ELEMS[1], ELEMS[2]]
    ops = []
    if r.random() < 0.15:
        # more than ten dynamic fields (field-10 sorts before field-2 as text), up to a few dozen
        for _ in range(r.choice([11, 12, 23, 34])):
            e = r.choice(elems)
            ops.append(['append_pos', 0, e, _elem_value(r, e)])
    for _ in range(r.choice([5, 12, 30])):
        x = r.random()
        e = r.choice(elems)
        if x < 0.45:
            m = r.choice(['append_pos', 'append_pos', 'set_pos', 'set_name', 'clear', 'reset', 'clone'])
            if m in ('append_pos', 'set_pos', 'set_name'):
                ops.append([m, r.randrange(8), e, _elem_value(r, e)])
            elif m == 'clone':
                ops.append(['clone', r.random() < 0.7])
            else:
                ops.append([m])
        elif x < 0.85:
            rd = r.choice(['get_pos', 'get_name', 'keys', 'len', 'contains', 'encode', 'isValue', 'prettyPrint', 'iter'])
            ops.append([rd, r.randrange(8)])
        else:
            ops.append([r.choice(['set_pos_far', 'get_name_unknown', 'set_name_unknown', 'get_pos_far']), r.choice([1, 2, 5])])
    return {'check': ID, 'kind': 'DYN', 'desc': {'k': r.choice(['SEQ', 'SET']), 'tags': [], 'fields': []}, 'ops': ops}


REC_FIELDS = [
    {'n': 'a', 'd': {'k': 'INTEGER', 'tags': []}, 'opt': 'R'},
    {'n': 'b', 'd': {'k': 'OCTETSTRING', 'tags': []}, 'opt': 'O'},
    {'n': 'c', 'd': {'k': 'BOOLEAN', 'tags': []}, 'opt': 'D', 'dv': True},
    {'n': 'd', 'd': {'k': 'SEQOF', 'tags': [['I', 'C', 1]], 'of': {'k': 'INTEGER', 'tags': []}}, 'opt': 'O'},
    {'n': 'e', 'd': {'k': 'UTF8', 'tags': [['E', 'C', 2]]}, 'opt': 'R'},
    {'n': 'f', 'd': {'k': 'SEQ', 'tags': [['I', 'C', 3]], 'fields': [{'n': 'x', 'd': {'k': 'INTEGER', 'tags': []}, 'opt': 'R'},
                                                                   {'n': 'y', 'd': {'k': 'INTEGER', 'tags': []}, 'opt': 'R'}]},
     'opt': 'O'},
    {'n': 'g', 'd': {'k': 'NULL', 'tags': [['I', 'C', 4]]}, 'opt': 'O'},
]


def _gen_rec(r):
    fields = [copy.deepcopy(f) for f in REC_FIELDS if r.random() < 0.7] or [copy.deepcopy(REC_FIELDS[0])]
    desc = {'k': r.choice(['SEQ', 'SET']), 'tags': [], 'fields': fields}
    names = [f['n'] for f in fields]
    ops = []
    allow_eq = r.random() < 0.3
    for _ in range(r.choice([5, 12, 30])):
        x = r.random()
        f = r.choice(fields)
        i = names.index(f['n'])
        if x < 0.45:
            m = r.choice(['set_name', 'set_name', 'set_pos', 'set_type', 'clear', 'reset', 'clone', 'get_name_inst', 'get_pos_inst',
                          'nested_mut', 'nested_mut', 'nested_clear'])
            if m == 'nested_clear':
                cand = [g for g in fields if g['n'] in ('d', 'f')]
                if not cand:
                    m = 'set_name'
                else:
                    if r.random() < 0.6:
                        ops.append([r.choice(['isValue', 'encode', 'prettyPrint'])])
                    ops.append(['nested_clear', r.choice(cand)['n'], r.choice(['clear', 'reset'])])
                    continue
            if m == 'nested_mut':
                cand = [g for g in fields if g['n'] in ('d', 'f')]
                if not cand:
                    m = 'set_name'
                else:
                    f = r.choice(cand)
                    i = names.index(f['n'])
                    ops.append(['nested_mut', f['n'], r.choice([0, 1, -1, 70000]), r.choice(['x', 'x', 'y'])])
                    continue
            if m in ('set_name', 'set_pos', 'set_type'):
                ops.append([m, f['n'] if m == 'set_name' else i, _elem_value(r, f['d']), r.random() < 0.3])
            elif m == 'clone':
                ops.append(['clone', r.random() < 0.7])
            elif m in ('get_name_inst', 'get_pos_inst'):
                # (the third item: the read also passes default=, which must not change what happens to the slot)
                ops.append([m, f['n'] if m == 'get_name_inst' else i, r.random() < 0.4])
            else:
                ops.append([m])
        elif x < 0.85:
            rd = r.choice(['get_noinst', 'get_name_default', 'keys', 'contains', 'len', 'iter', 'prettyPrint', 'encode',
                           'isValue', 'eq_self', 'values_present'])
            if rd == 'eq_self' and not allow_eq:
                rd = 'encode'
            if rd in ('get_noinst',):
                ops.append([rd, i])
            elif rd == 'get_name_default':
                ops.append([rd, f['n']])
            elif rd == 'contains':
                ops.append([rd, r.choice(names + ['nope'])])
            else:
                ops.append([rd])
        else:
            bad = r.choice(['get_name_unknown', 'set_name_unknown', 'get_pos_far', 'set_pos_far', 'set_wrong_type'])
            ops.append([bad, i, r.choice([0, 1, 3])])
    return {'check': ID, 'kind': 'REC', 'desc': desc, 'ops': ops}


def _gen_choice(r):
    alts = [['i', {'k': 'INTEGER', 'tags': []}], ['s', {'k': 'OCTETSTRING', 'tags': []}],
            ['b', {'k': 'BOOLEAN', 'tags': []}],
            ['q', {'k': 'SEQOF', 'tags': [], 'of': {'k': 'INTEGER', 'tags': []}}],
            ['n', {'k': 'NULL', 'tags': [['I', 'C', 7]]}]]
    alts = [a for a in alts if r.random() < 0.75] or alts[:2]
    if r.random() < 0.5:
        # an untagged CHOICE as an alternative: its alternatives are addressed through the outer one by tag
        alts.append(['c', {'k': 'CHOICE', 'tags': [], 'alts': [['cx', {'k': 'INTEGER', 'tags': [['I', 'C', 20]]}],
                                                            ['cy', {'k': 'OCTETSTRING', 'tags': [['I', 'C', 21]]}]]}])
    desc = {'k': 'CHOICE', 'tags': [], 'alts': alts}
    ops = []
    for _ in range(r.choice([4, 10, 24])):
        x = r.random()
        j = r.randrange(len(alts))
        if x < 0.45:
            m = r.choice(['set_name', 'set_name', 'set_pos', 'clear', 'clone', 'get_inst'])
            if m in ('set_name', 'set_pos'):
                ops.append([m, alts[j][0] if m == 'set_name' else j, _elem_value(r, alts[j][1])])
            elif m == 'clone':
                ops.append(['clone', True])
            elif m == 'get_inst':
                ops.append(['get_inst', j])
            else:
                ops.append([m])
        elif x < 0.88:
            rd = r.choice(['getName', 'getComponent', 'len', 'iter', 'items', 'get_noinst', 'encode', 'isValue', 'contains',
                           'prettyPrint', 'eq_self', 'get_type', 'get_type'])
            if rd == 'get_noinst':
                ops.append([rd, j])
            elif rd == 'get_type':
                # tag-addressed read that must not instantiate: [alternative, inner alternative or None, innerFlag]
                inner = r.randrange(2) if (alts[j][1]['k'] == 'CHOICE' and r.random() < 0.8) else None
                ops.append([rd, j, inner, r.random() < 0.6])
            elif rd == 'contains':
                ops.append([rd, r.choice([a[0] for a in alts] + ['nope'])])
            else:
                ops.append([rd])
        else:
            ops.append([r.choice(['set_name_unknown', 'get_pos_far', 'set_pos_far']), r.choice([0, 1, 4])])
    return {'check': ID, 'kind': 'CHOICE', 'desc': desc, 'ops': ops}


SCALAR_OPS = ['int', 'float', 'str', 'bytes', 'len', 'hash', 'bool', 'iter', 'getitem', 'add', 'radd', 'sub', 'mul', 'neg',
              'eq', 'ne', 'lt', 'gt', 'le', 'ge', 'contains', 'index_', 'and_', 'or_', 'invert', 'abs', 'round', 'divmod',
              'lshift', 'pow']


def _gen_scalar(r):
    k = r.choice(['INTEGER', 'BOOLEAN', 'ENUMERATED', 'BITSTRING', 'OCTETSTRING', 'NULL', 'OID', 'REAL', 'UTF8', 'IA5', 'ANY'])
    d = {'k': k, 'tags': []}
    if k == 'ENUMERATED':
        d['named'] = [['a', 0], ['b', 1]]
    return {'check': ID, 'kind': 'SCALAR', 'desc': d, 'ops': [[o] for o in r.sample(SCALAR_OPS, r.randrange(3, 12))]}


# ---------------------------------------------------------------------------
# execution helpers

def _der(obj):
    from pyasn1.codec.der import encoder
    return encoder.encode(obj)


def _norm_member(a):
    """A member that is a schema object, or a record none of whose own members is set, is a placeholder: the
    same abstract content as an absent member."""
    if a is None:
        return None
    if len(a) == 3 and a[2] == 'NOVALUE':
        return None
    if len(a) == 3 and a[0] in ('Sequence', 'Set') and isinstance(a[2], tuple) and all(x is None for x in a[2]):
        return None
    return a


def _observe_der(o, isv):
    """DER of a value; a non-value has no encoding to observe (what the encoder does with
    a schema object or a placeholder is not part of this property, and trying would
    instantiate DEFAULT components, i.e. the observation would not be pure)."""
    from pyasn1 import error
    if isv is not True:
        return 'not-a-value'
    try:
        return _der(o)
    except error.PyAsn1Error:
        return 'PyAsn1Error'
    except Exception as e:
        return 'encode!' + type(e).__name__


def _lib_or_lookup(exc):
    from pyasn1 import error
    return isinstance(exc, (LookupError, error.PyAsn1Error))


class Fail(Exception):
    def __init__(self, inv, **d):
        Exception.__init__(self, inv)
        self.inv = inv
        self.d = d


def execute(plan):
    kind = plan['kind']
    trace = []
    ctr = {'kind.%s' % kind: 1}
    try:
        runner = {'OF': OfRun, 'REC': RecRun, 'CHOICE': ChoiceRun, 'SCALAR': ScalarRun, 'DYN': DynRun}[kind](plan)
    except Exception as e:
        return common.skip_result('build:%s' % type(e).__name__)
    n_mut = n_other = 0
    for idx, op in enumerate(plan['ops']):
        trace.append(['op', idx, op[0]])
        ctr['op.%s' % op[0]] = ctr.get('op.%s' % op[0], 0) + 1
        try:
            cls = runner.step(op)
        except Fail as f:
            v = W.Violation(f.inv, step=idx, op=op, **f.d)
            sig = [f.inv, op[0], f.d.get('exc_cls')]
            res = common.violation_result(v, sig, trace, ctr, None, None, {'kind': 'none'}, None)
            res['evals'] = idx + 1
            return res
        if cls == 'mut':
            n_mut += 1
        elif n_mut:
            n_other += 1
    res = common.ok_result(trace, ctr, None, bool(n_mut and n_other) or kind == 'SCALAR')
    res['evals'] = max(1, len(plan['ops']))
    return res


# ---------------------------------------------------------------------------
# SEQUENCE OF / SET OF

class OfRun(object):
    def __init__(self, plan):
        self.desc = plan['desc']
        self.elem = self.desc['of']
        self.typed = plan['typed']
        self.schema = U.build_schema(self.desc)
        self.elem_schema = self.schema.componentType
        if self.typed:
            self.o = self.schema.clone()
        else:
            self.o = type(self.schema)()
        self.m = None            # None = schema object, else list of pyvalues / HOLE
        self.frozen = []         # (object, model) pairs that must not move any more
        if plan.get('start_decoded') is not None:
            # the history starts from what the DER decoder returned for these members
            from pyasn1.codec.der import decoder as _ddec
            init = list(plan['start_decoded'])
            self.o, _rest = _ddec.decode(_der(self.fresh(init)), asn1Spec=self.schema)
            self.m = init

    # -- model helpers
    def elem_obj(self, pv):
        return U.build_value(self.elem_schema, self.elem, pv)

    def elem_abs(self, pv):
        if pv == HOLE:
            return 'HOLE'
        return U.absval(self.elem_obj(pv))

    def elem_arg(self, pv, raw):
        if raw == 'narrow' and self.typed and self.elem['k'] in U.PRIMS:
            # an object of a narrower subtype of the element type: same abstract value
            return U.narrowed(self.elem_schema, self.elem, pv)
        if raw and raw != 'narrow' and self.typed and self.elem['k'] in U.PRIMS:
            return U.prim_arg(self.elem, pv)
        return self.elem_obj(pv)

    def fresh(self, m):
        o = self.schema.clone() if self.typed else type(self.schema)()
        o.clear()
        for i, pv in enumerate(m):
            o.setComponentByPosition(i, self.elem_obj(pv))
        return o

    # -- observation (pure)
    def observe(self, o):
        from pyasn1 import error
        try:
            n = len(o)
        except error.PyAsn1Error:
            n = 'len!'
        items = []
        if isinstance(n, int):
            for i in range(n):
                c = o.getComponentByPosition(i, default=None, instantiate=False)
                if c is None or c is U.p.base.noValue:
                    items.append('HOLE')
                else:
                    a = _norm_member(U.absval(c))
                    items.append('HOLE' if a is None else a)
        try:
            isv = bool(o.isValue)
        except Exception as e:
            isv = 'isValue!' + type(e).__name__
        der = _observe_der(o, isv)
        return (n, tuple(items), isv, der)

    def expected(self, m):
        if m is None:
            return (0, (), False, 'not-a-value')
        items = tuple(self.elem_abs(pv) for pv in m)
        isv = HOLE not in m
        if isv:
            try:
                der = _der(self.fresh(m))
            except Exception as e:
                # the same spelling as _observe_der: a value the encoder refuses (SIZE) must be refused
                # whatever its history
                from pyasn1 import error as _error
                der = 'PyAsn1Error' if isinstance(e, _error.PyAsn1Error) else 'fresh-encode!' + type(e).__name__
        else:
            der = 'not-a-value'
        return (len(m), items, isv, der)

    def check_state(self, where):
        got = self.observe(self.o)
        want = self.expected(self.m)
        for name, g, w in zip(('len', 'content', 'isValue', 'der'), got, want):
            if g != w:
                raise Fail('state-differs-from-model:%s' % name, where=where, got=U.safe_repr(g, 200), want=U.safe_repr(w, 200))
        for fo, fm in self.frozen:
            if self.observe(fo) != self.expected(fm):
                raise Fail('clone-source-moved', where=where)

    def step(self, op):
        from pyasn1 import error
        k = op[0]
        o, m = self.o, self.m
        before = self.observe(o)
        mlist = m if m is not None else []
        n = len(mlist)
        # ---- mutators
        if k in ('append', 'extend', 'setitem', 'setslice', 'setslice_resize', 'sort', 'reverse', 'clear', 'reset', 'clone',
                 'read_at_len', 'nested_mut', 'nested_clear'):
            try:
                if k == 'append':
                    o.append(self.elem_arg(op[1], op[2]))
                    self.m = mlist + [op[1]]
                elif k == 'extend':
                    batch = [self.elem_obj(v) for v in op[1]]
                    form = op[2] if len(op) > 2 else 'list'
                    if form == 'tuple':
                        batch = tuple(batch)
                    elif form == 'iter':
                        batch = iter(batch)
                    elif form == 'gen':
                        batch = (x_ for x_ in batch)
                    o.extend(batch)
                    self.m = mlist + list(op[1])
                elif k == 'setitem':
                    i = op[1]
                    if not (-n <= i <= n):
                        i = 0 if n == 0 else max(-n, min(n, i))
                    o[i] = self.elem_arg(op[2], op[3] if len(op) > 3 else False)
                    nm = list(mlist)
                    if i == n:
                        nm.append(op[2])
                    else:
                        nm[i] = op[2]
                    self.m = nm
                elif k in ('setslice', 'setslice_resize'):
                    a, b = op[1], op[2]
                    if a is not None and a >= 0:
                        a = min(a, n)
                    if b is not None and b >= 0:
                        b = min(b, n)
                    lo, hi, _st = slice(a, b).indices(n)
                    hi = max(hi, lo)
                    if k == 'setslice' and (hi - lo != len(op[3]) or hi == lo):
                        return 'skip'      # the history before it changed: no longer the same-length form
                    # what the open finding F9g does instead of list semantics: overwrite from the first selected
                    # position onwards, appending at the end; an empty selection of a non-empty object raises
                    sel = list(range(n))[slice(a, b)]
                    if n and not sel:
                        self._f9g_alt = 'IndexError'
                    else:
                        alt = list(mlist)
                        start = sel[0] if sel else 0
                        for j_, v_ in enumerate(op[3]):
                            if start + j_ < len(alt):
                                alt[start + j_] = v_
                            else:
                                alt.append(v_)
                        self._f9g_alt = alt if (m is not None or op[3]) else 'SCHEMA'     # nothing assigned: stays a schema
                    o[a:b] = [self.elem_obj(v) for v in op[3]]
                    nm = list(mlist)
                    nm[a:b] = list(op[3])
                    self.m = nm
                elif k == 'sort':
                    if m is None or HOLE in mlist:
                        return 'skip'
                    keyf = _SORT_KEYS[op[2] if len(op) > 2 else 'full']
                    o.sort(key=keyf, reverse=op[1])
                    objs = [self.elem_obj(v) for v in mlist]
                    # list.sort is stable, also with reverse=True (ties keep their original order)
                    order = sorted(range(n), key=lambda i_: keyf(objs[i_]), reverse=op[1])
                    self.m = [mlist[i_] for i_ in order]
                elif k == 'reverse':
                    if m is None:
                        return 'skip'
                    o.reverse()
                    self.m = list(reversed(mlist))
                elif k == 'clear':
                    o.clear()
                    self.m = []
                elif k == 'reset':
                    o.reset()
                    self.m = None
                elif k == 'clone':
                    c = o.clone(cloneValueFlag=op[1])
                    self.frozen = [(o, copy.deepcopy(m))][-1:]
                    self.o = c
                    self.m = copy.deepcopy(m) if op[1] else None
                elif k == 'read_at_len':
                    if not self.typed:
                        return 'skip'
                    o[n]
                    self.m = mlist + [HOLE]
                elif k == 'nested_mut':
                    # mutate a constructed member in place, through the read accessor
                    if not n or self.elem['k'] not in ('SEQ', 'SEQOF'):
                        return 'skip'
                    i = op[1] % n
                    nm = copy.deepcopy(mlist)
                    # (a placeholder member is filled the same way: the read hands out the stored placeholder)
                    if self.elem['k'] == 'SEQOF':
                        o[i].append(op[2])
                        nm[i] = (list(nm[i]) if nm[i] != HOLE else []) + [op[2]]
                    else:
                        o[i]['a'] = op[2]
                        nm[i] = dict(nm[i] if nm[i] != HOLE else {}, a=op[2])
                    self.m = nm
                elif k == 'nested_clear':
                    # a constructed member obtained by a plain read is emptied or reset in place
                    if not n or self.elem['k'] not in ('SEQ', 'SEQOF'):
                        return 'skip'
                    i = op[1] % n
                    nm = copy.deepcopy(mlist)
                    if op[2] == 'reset':
                        o[i].reset()
                        nm[i] = HOLE
                    else:
                        o[i].clear()
                        # an emptied SEQUENCE OF is the empty list, a value; a record whose mandatory field is gone is
                        # a placeholder again
                        nm[i] = [] if self.elem['k'] == 'SEQOF' else HOLE
                    self.m = nm
            except Exception as e:
                extra = {}
                if k == 'setslice_resize':
                    extra['f9g_alt'] = getattr(self, '_f9g_alt', None) == 'IndexError' and \
                        isinstance(e, (IndexError, error.PyAsn1Error))
                raise Fail('well-formed-mutator-raised', exc_cls=type(e).__name__, msg=str(e)[:120], **extra)
            try:
                self.check_state('after-' + k)
            except Fail as f:
                if k == 'setslice_resize':
                    alt = getattr(self, '_f9g_alt', None)
                    f.d['f9g_alt'] = (isinstance(alt, list) and self.observe(self.o) == self.expected(alt)) or \
                        (alt == 'SCHEMA' and self.observe(self.o) == self.expected(None))
                raise
            return 'mut'
        # ---- readers
        if k in ('len', 'iter', 'contains', 'getitem', 'getslice', 'get_noinst', 'count', 'index', 'prettyPrint',
                 'eq_self', 'encode', 'isValue'):
            holes = HOLE in mlist
            try:
                if k == 'len':
                    got, want = len(o), n
                elif k == 'iter':
                    if m is None:
                        return 'skip'
                    got = ['HOLE' if not x.isValue else U.absval(x) for x in o]
                    want = [self.elem_abs(v) for v in mlist]
                elif k == 'contains':
                    if m is None or holes:
                        return 'skip'
                    pv = mlist[op[2] % n] if (n and op[2] % 2) else op[1]
                    got = self.elem_obj(pv) in o
                    want = self.elem_abs(pv) in [self.elem_abs(v) for v in mlist]
                elif k == 'getitem':
                    if not n:
                        return 'skip'
                    i = max(-n, min(n - 1, op[1]))
                    x = o[i]
                    got = 'HOLE' if not x.isValue else U.absval(x)
                    want = self.elem_abs(mlist[i])
                elif k == 'getslice':
                    if m is None:
                        return 'skip'
                    got = ['HOLE' if not x.isValue else U.absval(x) for x in o[op[1]:op[2]]]
                    want = [self.elem_abs(v) for v in mlist[op[1]:op[2]]]
                elif k == 'get_noinst':
                    if not n:
                        return 'skip'
                    i = max(0, min(n - 1, abs(op[1])))
                    x = o.getComponentByPosition(i, default=None, instantiate=False)
                    got = 'HOLE' if x is None or not x.isValue else U.absval(x)
                    want = self.elem_abs(mlist[i])
                elif k == 'count':
                    if m is None or holes:
                        return 'skip'
                    pv = mlist[op[2] % n] if (n and op[2] % 2) else op[1]
                    got = o.count(self.elem_obj(pv))
                    want = [self.elem_abs(v) for v in mlist].count(self.elem_abs(pv))
                elif k == 'index':
                    if m is None or holes or not n:
                        return 'skip'
                    pv = mlist[op[2] % n]
                    got = o.index(self.elem_obj(pv))
                    want = [self.elem_abs(v) for v in mlist].index(self.elem_abs(pv))
                elif k == 'prettyPrint':
                    o.prettyPrint()
                    str(o)
                    repr(o)
                    got = want = None
                elif k == 'eq_self':
                    if m is None or holes:
                        return 'skip'
                    got, want = (o == self.fresh(mlist)), True
                elif k == 'encode':
                    if m is None or holes:
                        return 'skip'
                    # a value the encoder refuses (SIZE) must be refused, with a library error, whatever its history
                    got, want = _observe_der(o, True), self.expected(mlist)[3]
                else:
                    got, want = bool(o.isValue), (m is not None and not holes)
            except Fail:
                raise
            except Exception as e:
                raise Fail('well-formed-reader-raised', exc_cls=type(e).__name__, msg=str(e)[:120])
            if got != want:
                raise Fail('reader-result-differs-from-model', got=U.safe_repr(got, 160), want=U.safe_repr(want, 160))
            if self.observe(o) != before:
                raise Fail('reader-changed-object', before=U.safe_repr(before, 200), after=U.safe_repr(self.observe(o), 200))
            return 'read'
        # ---- ill-formed operations: must raise lookup/library error and change nothing
        try:
            if k == 'getitem_far':
                o[n + op[1]]
            elif k == 'getitem_neg_far':
                o[-n - op[1]]
            elif k == 'setitem_far':
                o[n + op[1]] = self.elem_obj(_default_pv(self.elem))
            elif k == 'setitem_bad_type':
                if not self.typed:
                    return 'skip'
                o[n] = U.p.univ.Real(1.5)
            elif k == 'index_absent':
                if m is None:
                    return 'skip'
                o.index(U.p.univ.Real(7.25))
            else:
                return 'skip'
        except Exception as e:
            ok = _lib_or_lookup(e) or (k == 'index_absent' and isinstance(e, ValueError))
            if not ok:
                raise Fail('ill-formed-op-wrong-exception', exc_cls=type(e).__name__, msg=str(e)[:120])
        else:
            raise Fail('ill-formed-op-accepted', after=U.safe_repr(self.observe(o), 200), before=U.safe_repr(before, 200))
        if self.observe(o) != before:
            raise Fail('failed-op-changed-object', before=U.safe_repr(before, 200), after=U.safe_repr(self.observe(o), 200))
        return 'bad'


def _sort_key(x):
    a = U.absval(x)
    return repr(a)


def _sort_key_coarse(x):
    """A key under which distinct members tie (three classes): makes the stability of sort visible."""
    import zlib
    return zlib.crc32(repr(U.absval(x)).encode()) % 3


_SORT_KEYS = {'full': _sort_key, 'coarse': _sort_key_coarse, 'const': lambda x: 0}


def _default_pv(d):
    k = d['k']
    return {'INTEGER': 1, 'OCTETSTRING': '00', 'BOOLEAN': True, 'UTF8': 'x', 'NULL': '', 'SEQ': {'a': 1}, 'SEQOF': [1]}.get(k, 1)


# ---------------------------------------------------------------------------
# SEQUENCE / SET with declared fields

class RecRun(object):
    def __init__(self, plan):
        self.desc = plan['desc']
        self.schema = U.build_schema(self.desc)
        self.fields = self.desc['fields']
        self.names = [f['n'] for f in self.fields]
        self.o = self.schema.clone()
        # None = schema object (after reset()); else dict name -> pv | HOLE.  A record type with
        # declared components is born with an (empty) component store, i.e. as an incomplete value.
        self.m = {}
        self.frozen = []

    def sub_schema(self, i):
        return self.schema.componentType[i].asn1Object

    def field_obj(self, i, pv):
        return U.build_value(self.sub_schema(i), self.fields[i]['d'], pv)

    def fresh(self, m):
        clean = dict((k, v) for k, v in m.items() if v != HOLE)
        o = U.build_value(self.schema, self.desc, clean)
        if not clean:
            o.clear()
        return o

    def observe_abs(self, o):
        """content {name: abs}, isValue, DER."""
        from pyasn1 import error
        content = []
        for i, f in enumerate(self.fields):
            # through the public `components` list: getComponentByPosition(instantiate=False) hides a member
            # that is not yet a complete value (a half-filled nested record), with or without default=
            comps = o.components
            c = comps[i] if (comps is not U.p.base.noValue and i < len(comps)) else None
            if c is None or c is U.p.base.noValue:
                a = None
            else:
                a = _norm_member(U.absval(c))
            if a is None and f['opt'] == 'D':
                # an absent DEFAULT component and the default value are the same abstract content;
                # the library instantiates the default lazily (e.g. on encode)
                a = U.absval(self.sub_schema(i))
            content.append(a)
        try:
            isv = bool(o.isValue)
        except Exception as e:
            isv = 'isValue!' + type(e).__name__
        der = _observe_der(o, isv)
        return (tuple(content), isv, der)

    def observe_rel(self, o):
        from pyasn1 import error
        out = []
        for fn in (lambda: len(o), lambda: [str(x) for x in o], lambda: [nm in o for nm in self.names + ['nope']]):
            try:
                out.append(fn())
            except error.PyAsn1Error:
                out.append('PyAsn1Error')
            except Exception as e:
                out.append('!' + type(e).__name__)
        return repr(out)

    def _want_complete(self, m, i):
        """What a read with default= returns: the member if it is a complete value, else the default."""
        pv = (m or {}).get(self.names[i])
        if self.names[i] == 'f' and isinstance(pv, dict) and not ('x' in pv and 'y' in pv):
            return U.absval(self.sub_schema(i)) if self.fields[i]['opt'] == 'D' else None
        return self.expected_abs(m)[0][i]

    def expected_abs(self, m):
        content = []
        if m is None:
            for i, f in enumerate(self.fields):
                content.append(U.absval(self.sub_schema(i)) if f['opt'] == 'D' else None)
            return (tuple(content), False, 'not-a-value')
        for i, f in enumerate(self.fields):
            pv = m.get(f['n'])
            if pv is None or pv == HOLE:
                if f['opt'] == 'D':
                    content.append(U.absval(self.sub_schema(i)))
                else:
                    content.append(None)
            else:
                a_ = _norm_member(U.absval(self.field_obj(i, pv)))
                if a_ is None and f['opt'] == 'D':
                    a_ = U.absval(self.sub_schema(i))
                content.append(a_)
        isv = all((f['opt'] != 'R') or (m.get(f['n']) not in (None, HOLE)) for f in self.fields)
        if isv:
            try:
                der = _der(self.fresh(m))
            except Exception as e:
                # the same spelling as _observe_der: a value the encoder refuses (SIZE) must be refused
                # whatever its history
                from pyasn1 import error as _error
                der = 'PyAsn1Error' if isinstance(e, _error.PyAsn1Error) else 'fresh-encode!' + type(e).__name__
        else:
            der = 'not-a-value'
        return (tuple(content), isv, der)

    def check_state(self, where):
        got = self.observe_abs(self.o)
        want = self.expected_abs(self.m)
        for i, (g, w) in enumerate(zip(got[0], want[0])):
            if g != w:
                raise Fail('state-differs-from-model:content', where=where, field=self.names[i], got=U.safe_repr(g, 160),
                           want=U.safe_repr(w, 160))
        if got[1] != want[1]:
            raise Fail('state-differs-from-model:isValue', where=where, got=got[1], want=want[1])
        if got[2] != want[2]:
            raise Fail('state-differs-from-model:der', where=where, got=U.safe_repr(got[2], 160), want=U.safe_repr(want[2], 160))
        for fo, fm in self.frozen:
            g2, w2 = self.observe_abs(fo), self.expected_abs(fm)
            if g2[1:] != w2[1:]:
                raise Fail('clone-source-moved', where=where)

    def step(self, op):
        k = op[0]
        o, m = self.o, self.m
        before_abs = self.observe_abs(o)
        before_rel = self.observe_rel(o)
        md = dict(m) if m is not None else {}
        if k in ('set_name', 'set_pos', 'set_type', 'clear', 'reset', 'clone', 'get_name_inst', 'get_pos_inst', 'nested_mut',
                 'nested_clear'):
            try:
                if k == 'nested_clear':
                    if op[1] not in self.names:
                        return 'skip'
                    # o[name] instantiates the member if need be (documented), then it is emptied or reset in place
                    if op[2] == 'reset':
                        o[op[1]].reset()
                        md[op[1]] = HOLE
                    else:
                        o[op[1]].clear()
                        md[op[1]] = [] if op[1] == 'd' else {}
                    self.m = md
                elif k == 'nested_mut':
                    if op[1] not in self.names:
                        return 'skip'
                    if op[1] == 'd':
                        o['d'].append(op[2])
                        md['d'] = (list(md['d']) if md.get('d') not in (None, HOLE) else []) + [op[2]]
                    else:
                        # the documented lazy way: o['f'] instantiates the member if need be, then one of its two
                        # mandatory fields is assigned (the member may stay half filled for a while)
                        sub = op[3] if len(op) > 3 else 'x'
                        o['f'][sub] = op[2]
                        cur = md.get('f')
                        md['f'] = dict(cur if isinstance(cur, dict) else {}, **{sub: op[2]})
                    self.m = md
                elif k in ('set_name', 'set_pos', 'set_type'):
                    i = self.names.index(op[1]) if k == 'set_name' else op[1]
                    i = min(i, len(self.fields) - 1)
                    pv = op[2]
                    obj = self.field_obj(i, pv)
                    if k == 'set_name':
                        if op[3] and self.fields[i]['d']['k'] in U.PRIMS:
                            o[self.names[i]] = U.prim_arg(self.fields[i]['d'], pv)
                        else:
                            o.setComponentByName(self.names[i], obj)
                    elif k == 'set_pos':
                        o.setComponentByPosition(i, obj)
                    else:
                        if self.desc['k'] != 'SET':
                            return 'skip'
                        o.setComponentByType(self.sub_schema(i).tagSet, obj)
                    md[self.names[i]] = pv
                    self.m = md
                elif k == 'clear':
                    o.clear()
                    self.m = {}
                elif k == 'reset':
                    o.reset()
                    self.m = None
                elif k == 'clone':
                    c = o.clone(cloneValueFlag=op[1])
                    self.frozen = [(o, copy.deepcopy(m))]
                    self.o = c
                    # a new record object is born with an empty component store (see __init__)
                    self.m = copy.deepcopy(m) if (op[1] and m is not None) else {}
                else:
                    i = self.names.index(op[1]) if k == 'get_name_inst' else min(op[1], len(self.fields) - 1)
                    kw_ = {'default': None} if (len(op) > 2 and op[2]) else {}
                    if k == 'get_name_inst':
                        o.getComponentByName(self.names[i], **kw_)
                    else:
                        o.getComponentByPosition(i, **kw_)
                    # documented: instantiates a placeholder in an empty slot (a mutator in the model)
                    if m is None:
                        self.m = md
                    if md.get(self.names[i]) is None:
                        if self.fields[i]['opt'] != 'D':
                            md[self.names[i]] = HOLE
                        self.m = md
            except Exception as e:
                raise Fail('well-formed-mutator-raised', exc_cls=type(e).__name__, msg=str(e)[:120])
            self.check_state('after-' + k)
            return 'mut'
        if k in ('get_noinst', 'get_name_default', 'keys', 'contains', 'len', 'iter', 'prettyPrint', 'encode', 'isValue',
                 'eq_self', 'values_present'):
            try:
                if k == 'get_noinst':
                    i = min(op[1], len(self.fields) - 1)
                    x = o.getComponentByPosition(i, default=None, instantiate=False)
                    got = None if x is None else U.absval(x)
                    want = self._want_complete(m, i)
                    if got is None and self.fields[i]['opt'] == 'D':
                        got = U.absval(self.sub_schema(i))
                elif k == 'get_name_default':
                    i = self.names.index(op[1])
                    x = o.getComponentByName(op[1], default=None, instantiate=False)
                    got = None if x is None else U.absval(x)
                    want = self._want_complete(m, i)
                    if got is None and self.fields[i]['opt'] == 'D':
                        got = U.absval(self.sub_schema(i))
                elif k == 'keys':
                    got, want = [str(x) for x in o.keys()], list(self.names)
                elif k == 'contains':
                    got, want = (op[1] in o), (op[1] in self.names)
                elif k in ('len', 'iter'):
                    got = want = None     # asserted relatively below
                    len(o)
                    list(o)
                elif k == 'prettyPrint':
                    o.prettyPrint()
                    repr(o)
                    got = want = None
                elif k == 'encode':
                    w = self.expected_abs(m)
                    if not w[1]:
                        return 'skip'
                    got, want = _der(o), w[2]
                elif k == 'isValue':
                    got, want = bool(o.isValue), self.expected_abs(m)[1]
                elif k == 'eq_self':
                    if m is None or not self.expected_abs(m)[1] or HOLE in md.values():
                        return 'skip'
                    got, want = (o == self.fresh(md)), True
                else:
                    got = want = None
                    for nm, pv in md.items():
                        if pv != HOLE:
                            o[nm]
            except Exception as e:
                from pyasn1 import error
                if m is None and isinstance(e, error.PyAsn1Error):
                    # a schema object (never assigned, or after reset()) refuses value operations by design
                    got = want = None
                else:
                    raise Fail('well-formed-reader-raised', exc_cls=type(e).__name__, msg=str(e)[:120])
            if got != want:
                raise Fail('reader-result-differs-from-model', got=U.safe_repr(got, 160), want=U.safe_repr(want, 160))
            if self.observe_abs(o) != before_abs or self.observe_rel(o) != before_rel:
                raise Fail('reader-changed-object', before=U.safe_repr(before_abs, 150) + before_rel[:80],
                           after=U.safe_repr(self.observe_abs(o), 150) + self.observe_rel(o)[:80])
            return 'read'
        # ill-formed
        nf = len(self.fields)
        try:
            if k == 'get_name_unknown':
                o['no_such_field']
            elif k == 'set_name_unknown':
                o['no_such_field'] = U.p.univ.Integer(1)
            elif k == 'get_pos_far':
                o.getComponentByPosition(nf + op[2])
            elif k == 'set_pos_far':
                o.setComponentByPosition(nf + op[2], U.p.univ.Integer(1))
            elif k == 'set_wrong_type':
                i = min(op[1], nf - 1)
                wrong = U.p.univ.Real(2.5)
                o.setComponentByPosition(i, wrong)
            else:
                return 'skip'
        except Exception as e:
            if not _lib_or_lookup(e):
                raise Fail('ill-formed-op-wrong-exception', exc_cls=type(e).__name__, msg=str(e)[:120])
        else:
            raise Fail('ill-formed-op-accepted', before=U.safe_repr(before_abs, 160), after=U.safe_repr(self.observe_abs(o), 160))
        if self.observe_abs(o) != before_abs or self.observe_rel(o) != before_rel:
            raise Fail('failed-op-changed-object', before=U.safe_repr(before_abs, 150) + before_rel[:80],
                       after=U.safe_repr(self.observe_abs(o), 150) + self.observe_rel(o)[:80])
        return 'bad'


# ---------------------------------------------------------------------------
# CHOICE

class ChoiceRun(object):
    def __init__(self, plan):
        self.desc = plan['desc']
        self.schema = U.build_schema(self.desc)
        self.alts = self.desc['alts']
        self.names = [a[0] for a in self.alts]
        self.o = self.schema.clone()
        self.m = None     # None or [name, pv|HOLE]

    def alt_obj(self, j, pv):
        return U.build_value(self.schema.componentType[j].asn1Object, self.alts[j][1], pv)

    def observe(self, o):
        from pyasn1 import error
        slots = []
        for j in range(len(self.alts)):
            c = o.getComponentByPosition(j, default=None, instantiate=False)
            if c is None or c is U.p.base.noValue:
                slots.append(None)
            else:
                a = U.absval(c)
                # a placeholder: a schema object, or a nested CHOICE with nothing chosen
                slots.append('HOLE' if (len(a) == 3 and a[2] in ('NOVALUE', 'EMPTY')) else a)
        try:
            isv = bool(o.isValue)
        except Exception as e:
            isv = 'isValue!' + type(e).__name__
        der = _observe_der(o, isv)
        try:
            nm = o.getName()
        except error.PyAsn1Error:
            nm = None
        return (tuple(slots), isv, der, len(o), nm)

    def expected(self, m):
        slots = [None] * len(self.alts)
        if m is None:
            return (tuple(slots), False, 'not-a-value', 0, None)
        j = self.names.index(m[0])
        if m[1] == HOLE:
            slots[j] = 'HOLE'
            return (tuple(slots), False, 'not-a-value', 1, m[0])
        obj = self.alt_obj(j, m[1])
        slots[j] = U.absval(obj)
        fresh = self.schema.clone()
        fresh.setComponentByPosition(j, obj)
        return (tuple(slots), True, _der(fresh), 1, m[0])

    def check_state(self, where):
        got, want = self.observe(self.o), self.expected(self.m)
        held = [s for s in got[0] if s is not None and s != 'HOLE']
        if len(held) > 1:
            raise Fail('choice-holds-more-than-one-alternative', where=where, slots=U.safe_repr(got[0], 200))
        for name, g, w in zip(('slots', 'isValue', 'der', 'len', 'name'), got, want):
            if g != w:
                raise Fail('state-differs-from-model:%s' % name, where=where, got=U.safe_repr(g, 200), want=U.safe_repr(w, 200))

    def step(self, op):
        from pyasn1 import error
        k = op[0]
        o = self.o
        before = self.observe(o)
        if k in ('set_name', 'set_pos', 'clear', 'clone', 'get_inst'):
            try:
                if k in ('set_name', 'set_pos'):
                    j = self.names.index(op[1]) if k == 'set_name' else min(op[1], len(self.alts) - 1)
                    obj = self.alt_obj(j, op[2])
                    if k == 'set_name':
                        o[self.names[j]] = obj
                    else:
                        o.setComponentByPosition(j, obj)
                    self.m = [self.names[j], op[2]]
                elif k == 'clear':
                    o.clear()
                    self.m = None
                elif k == 'clone':
                    self.o = o.clone(cloneValueFlag=True)
                else:
                    j = min(op[1], len(self.alts) - 1)
                    o.getComponentByPosition(j)
                    if self.m is None or self.m[0] != self.names[j]:
                        # documented: a subscript read of a non-selected alternative instantiates it
                        self.m = [self.names[j], HOLE]
                        got = self.observe(o)
                        held = [s for s in got[0] if s is not None and s != 'HOLE']
                        if len(held) > 1:
                            raise Fail('choice-holds-more-than-one-alternative', slots=U.safe_repr(got[0], 200))
                        return 'mut'
            except Fail:
                raise
            except Exception as e:
                raise Fail('well-formed-mutator-raised', exc_cls=type(e).__name__, msg=str(e)[:120])
            self.check_state('after-' + k)
            return 'mut'
        if k in ('getName', 'getComponent', 'len', 'iter', 'items', 'get_noinst', 'encode', 'isValue', 'contains',
                 'prettyPrint', 'eq_self', 'get_type'):
            m = self.m
            has = m is not None and m[1] != HOLE
            try:
                if k == 'get_type':
                    j = min(op[1], len(self.alts) - 1)
                    sub = self.schema.componentType[j].asn1Object
                    if op[2] is not None and self.alts[j][1]['k'] == 'CHOICE':
                        sub = sub.componentType[op[2]].asn1Object
                    elif self.alts[j][1]['k'] == 'CHOICE':
                        return 'skip'
                    # the result is not modelled (nested addressing): the read must be pure; asking for the
                    # inner component of a nested CHOICE with nothing chosen may be refused with a library error
                    try:
                        o.getComponentByType(sub.tagSet, default=None, instantiate=False, innerFlag=bool(op[3]))
                    except error.PyAsn1Error:
                        pass
                    got = want = None
                elif k == 'getName':
                    if m is None:
                        return 'skip'
                    got, want = o.getName(), m[0]
                elif k == 'getComponent':
                    if not has:
                        return 'skip'
                    got, want = U.absval(o.getComponent()), U.absval(self.alt_obj(self.names.index(m[0]), m[1]))
                elif k == 'len':
                    got, want = len(o), (0 if m is None else 1)
                elif k == 'iter':
                    got, want = [str(x) for x in o], ([] if m is None else [m[0]])
                elif k == 'items':
                    if m is not None and not has:
                        return 'skip'
                    got = [(str(a), U.absval(b)) for a, b in o.items()]
                    want = [] if m is None else [(m[0], U.absval(self.alt_obj(self.names.index(m[0]), m[1])))]
                elif k == 'get_noinst':
                    j = min(op[1], len(self.alts) - 1)
                    x = o.getComponentByPosition(j, default=None, instantiate=False)
                    got = None if x is None or x is U.p.base.noValue or not x.isValue else U.absval(x)
                    want = U.absval(self.alt_obj(j, m[1])) if (has and m[0] == self.names[j]) else None
                elif k == 'encode':
                    if not has:
                        return 'skip'
                    got, want = _der(o), self.expected(m)[2]
                elif k == 'isValue':
                    got, want = bool(o.isValue), has
                elif k == 'contains':
                    got, want = (op[1] in o), (m is not None and m[0] == op[1])
                elif k == 'prettyPrint':
                    o.prettyPrint()
                    repr(o)
                    got = want = None
                else:
                    if not has:
                        return 'skip'
                    j = self.names.index(m[0])
                    fresh = self.schema.clone()
                    fresh.setComponentByPosition(j, self.alt_obj(j, m[1]))
                    got, want = (o == fresh), True
            except Exception as e:
                raise Fail('well-formed-reader-raised', exc_cls=type(e).__name__, msg=str(e)[:120])
            if got != want:
                raise Fail('reader-result-differs-from-model', got=U.safe_repr(got, 160), want=U.safe_repr(want, 160))
            if self.observe(o) != before:
                raise Fail('reader-changed-object', before=U.safe_repr(before, 200), after=U.safe_repr(self.observe(o), 200))
            return 'read'
        na = len(self.alts)
        try:
            if k == 'set_name_unknown':
                o['no_such_alternative'] = U.p.univ.Integer(1)
            elif k == 'get_pos_far':
                o.getComponentByPosition(na + op[1])
            elif k == 'set_pos_far':
                o.setComponentByPosition(na + op[1], U.p.univ.Integer(1))
            else:
                return 'skip'
        except Exception as e:
            if not _lib_or_lookup(e):
                raise Fail('ill-formed-op-wrong-exception', exc_cls=type(e).__name__, msg=str(e)[:120])
        else:
            raise Fail('ill-formed-op-accepted', before=U.safe_repr(before, 160), after=U.safe_repr(self.observe(o), 160))
        if self.observe(o) != before:
            raise Fail('failed-op-changed-object', before=U.safe_repr(before, 200), after=U.safe_repr(self.observe(o), 200))
        return 'bad'


# ---------------------------------------------------------------------------
# SEQUENCE / SET without declared components (dynamic field names)

class DynRun(object):
    def __init__(self, plan):
        cls = U.P()['classes'][plan['desc']['k']]
        self.cls = cls
        self.o = cls()
        self.m = None          # None = schema; else list of (elem desc, pv)
        self.frozen = []

    def obj(self, e, pv):
        return U.build_value(U.build_schema(e), e, pv)

    def observe(self, o):
        from pyasn1 import error
        try:
            n = len(o)
        except error.PyAsn1Error:
            n = 'schema'
        items = []
        if isinstance(n, int):
            for i in range(n):
                c = o.getComponentByPosition(i, default=None, instantiate=False)
                items.append(None if c is None else U.absval(c))
        try:
            isv = bool(o.isValue)
        except Exception as e:
            isv = 'isValue!' + type(e).__name__
        try:
            names = [str(k) for k in o.keys()]
        except error.PyAsn1Error:
            names = 'schema'
        except Exception as e:
            names = '!' + type(e).__name__
        return (n, tuple(items), isv, _observe_der(o, isv), names)

    def expected(self, m):
        if m is None:
            return ('schema', (), False, 'not-a-value', [])
        fresh = self.cls()
        fresh.clear()
        for i, (e, pv) in enumerate(m):
            fresh.setComponentByPosition(i, self.obj(e, pv))
        return (len(m), tuple(U.absval(self.obj(e, pv)) for e, pv in m), True, _der(fresh) if True else None,
                ['field-%d' % i for i in range(len(m))])

    def check_state(self, where):
        got, want = self.observe(self.o), self.expected(self.m)
        if self.m is None:
            # a schema object: len()/keys() may either raise the library error or report emptiness
            if got[0] not in ('schema', 0) or got[2] is not False:
                raise Fail('state-differs-from-model:schema', where=where, got=U.safe_repr(got, 200))
        else:
            for name, g, w in zip(('len', 'content', 'isValue', 'der', 'names'), got, want):
                if g != w:
                    raise Fail('state-differs-from-model:%s' % name, where=where, got=U.safe_repr(g, 200), want=U.safe_repr(w, 200))
        for fo, fm in self.frozen:
            if fm is not None and self.observe(fo) != self.expected(fm):
                raise Fail('clone-source-moved', where=where)

    def step(self, op):
        from pyasn1 import error
        k = op[0]
        o, m = self.o, self.m
        before = self.observe(o)
        ml = list(m) if m is not None else []
        n = len(ml)
        if k in ('append_pos', 'set_pos', 'set_name', 'clear', 'reset', 'clone'):
            try:
                if k == 'append_pos':
                    o.setComponentByPosition(n, self.obj(op[2], op[3]))
                    self.m = ml + [(op[2], op[3])]
                elif k in ('set_pos', 'set_name'):
                    if not n:
                        return 'skip'
                    i = op[1] % n
                    if k == 'set_pos':
                        o.setComponentByPosition(i, self.obj(op[2], op[3]))
                    else:
                        o['field-%d' % i] = self.obj(op[2], op[3])
                    ml[i] = (op[2], op[3])
                    self.m = ml
                elif k == 'clear':
                    o.clear()
                    self.m = []
                elif k == 'reset':
                    o.reset()
                    self.m = None
                else:
                    c = o.clone(cloneValueFlag=op[1])
                    self.frozen = [(o, copy.deepcopy(m))]
                    self.o = c
                    self.m = copy.deepcopy(m) if op[1] else None
            except Exception as e:
                raise Fail('well-formed-mutator-raised', exc_cls=type(e).__name__, msg=str(e)[:120])
            self.check_state('after-' + k)
            return 'mut'
        if k in ('get_pos', 'get_name', 'keys', 'len', 'contains', 'encode', 'isValue', 'prettyPrint', 'iter'):
            if m is None:
                return 'skip'
            try:
                if k in ('get_pos', 'get_name'):
                    if not n:
                        return 'skip'
                    i = op[1] % n
                    x = o[i] if k == 'get_pos' else o['field-%d' % i]
                    got, want = U.absval(x), U.absval(self.obj(*ml[i]))
                elif k == 'keys':
                    got, want = [str(x) for x in o.keys()], ['field-%d' % i for i in range(n)]
                elif k == 'len':
                    got, want = len(o), n
                elif k == 'contains':
                    name = 'field-%d' % op[1]
                    got, want = (name in o), (op[1] < n)
                elif k == 'encode':
                    got, want = _der(o), self.expected(ml)[3]
                elif k == 'isValue':
                    got, want = bool(o.isValue), True
                elif k == 'iter':
                    got, want = [str(x) for x in o], ['field-%d' % i for i in range(n)]
                else:
                    o.prettyPrint()
                    repr(o)
                    got = want = None
            except Exception as e:
                raise Fail('well-formed-reader-raised', exc_cls=type(e).__name__, msg=str(e)[:120])
            if got != want:
                raise Fail('reader-result-differs-from-model', got=U.safe_repr(got, 160), want=U.safe_repr(want, 160))
            if self.observe(o) != before:
                raise Fail('reader-changed-object', before=U.safe_repr(before, 200), after=U.safe_repr(self.observe(o), 200))
            return 'read'
        try:
            if k == 'set_pos_far':
                o.setComponentByPosition(n + op[1], U.p.univ.Integer(1))
            elif k == 'get_pos_far':
                o.getComponentByPosition(n + op[1])
            elif k == 'get_name_unknown':
                o['no_such_field']
            elif k == 'set_name_unknown':
                o['no_such_field'] = U.p.univ.Integer(1)
            else:
                return 'skip'
        except Exception as e:
            if not _lib_or_lookup(e):
                raise Fail('ill-formed-op-wrong-exception', exc_cls=type(e).__name__, msg=str(e)[:120])
        else:
            raise Fail('ill-formed-op-accepted', before=U.safe_repr(before, 160), after=U.safe_repr(self.observe(o), 160))
        if self.observe(o) != before:
            raise Fail('failed-op-changed-object', before=U.safe_repr(before, 200), after=U.safe_repr(self.observe(o), 200))
        return 'bad'


# ---------------------------------------------------------------------------
# valueless scalars

class ScalarRun(object):
    def __init__(self, plan):
        self.desc = plan['desc']
        self.o = U.build_schema(plan['desc'])
        if self.o.isValue:
            raise ValueError('not a schema object')

    def step(self, op):
        import operator
        from pyasn1 import error
        o = self.o
        fns = {
            'int': lambda: int(o), 'float': lambda: float(o), 'str': lambda: str(o), 'bytes': lambda: bytes(o),
            'len': lambda: len(o), 'hash': lambda: hash(o), 'bool': lambda: bool(o), 'iter': lambda: list(iter(o)),
            'getitem': lambda: o[0], 'add': lambda: o + 1, 'radd': lambda: 1 + o, 'sub': lambda: o - 1, 'mul': lambda: o * 2,
            'neg': lambda: -o, 'eq': lambda: o == 1, 'ne': lambda: o != 1, 'lt': lambda: o < 1, 'gt': lambda: o > 1,
            'le': lambda: o <= 1, 'ge': lambda: o >= 1, 'contains': lambda: 1 in o, 'index_': lambda: operator.index(o),
            'and_': lambda: o & 1, 'or_': lambda: o | 1, 'invert': lambda: ~o, 'abs': lambda: abs(o), 'round': lambda: round(o),
            'divmod': lambda: divmod(o, 2), 'lshift': lambda: o << 1, 'pow': lambda: o ** 2,
        }
        # is the operation meaningful for this type at all?  Ask a value object.
        v = U.build_value(o, self.desc, _default_pv_scalar(self.desc))
        o_saved = o
        o = v
        try:
            fns[op[0]]()
        except (TypeError, AttributeError, NotImplementedError):
            return 'skip'       # unsupported for values too: nothing to demand of the schema object
        except Exception:
            pass
        o = o_saved
        try:
            res = fns[op[0]]()
        except error.PyAsn1Error:
            return 'bad'
        except Exception as e:
            raise Fail('valueless-scalar-wrong-exception', exc_cls=type(e).__name__, msg=str(e)[:100], type=type(o).__name__)
        raise Fail('valueless-scalar-returned-data', exc_cls='returned', result=U.safe_repr(res, 80), type=type(o).__name__)


def _default_pv_scalar(d):
    return {'INTEGER': 5, 'BOOLEAN': True, 'ENUMERATED': 1, 'BITSTRING': '1011', 'OCTETSTRING': '6162', 'NULL': '',
            'OID': [1, 3, 6], 'REAL': 1.5, 'UTF8': 'ab', 'IA5': 'ab', 'ANY': '0500'}[d['k']]


def shrink_candidates(plan):
    ops = plan['ops']
    n = len(ops)
    size = n // 2
    while size >= 1:
        for lo in range(0, n, size):
            c = copy.deepcopy(plan)
            c['ops'] = ops[:lo] + ops[lo + size:]
            yield c
        size //= 2
    if plan['kind'] == 'REC' and len(plan['desc']['fields']) > 1:
        for i in range(len(plan['desc']['fields'])):
            name = plan['desc']['fields'][i]['n']
            c = copy.deepcopy(plan)
            del c['desc']['fields'][i]
            c['ops'] = [o for o in c['ops'] if not (len(o) > 1 and o[1] == name)]
            yield c
