"""C04 -- DER/CER bytes depend only on the abstract value, not on how it was built.

Replica-world: N replicas are driven to the same abstract value by different seeded
construction histories (permuted assignment / insertion order, DEFAULT components
explicit or left out, native Python arguments, decoding of each BER form the
library's encoder can produce, clone), with read-only uses (encode, print, iterate,
compare, len, in) interleaved at seeded points.  The compared state is the DER and
the CER encoding: all replicas must converge on identical bytes, read-only steps
must leave a replica's bytes and abstract value unchanged, and re-encoding a decoded
DER (CER) encoding must reproduce it.  No reference encoder is involved.
"""
import copy
import random

from simkit import corrupt, plan as P, universe as U, world as W
from checks import common

ID = 'C04'
LEVEL = 'exploration'
TIERS = {"quick": 30000, "thorough": 1200000}
BUDGET = {'quick': 150, 'thorough': 1500}
RULE = ('seeded plans: universe descriptor + one abstract value + 2-5 replicas, each with a construction route '
        '(canonical | permuted order | explicit/implicit DEFAULTs | native Python arguments | every scalar slot assigned a decoy first and then the target | scalars given as objects of a narrower subtype, DEFAULTs explicit | equal sub-values being one shared object | decode of a BER form the encoder produces, incl. REAL bases 8/16 | decode of an equivalent BER variant: long-form lengths, indefinite lengths, constructed strings, other TRUE octets | clone of another '
        'route) and 0-6 interleaved read-only operations; non-trivial: at least two replicas reached the value by different routes and '
        'both encoders accepted it; distinct = distinct plan digests among those')
ASSUMPTIONS = [
    'the abstract value is the plan\'s plain-data value; SET OF is a multiset, an absent DEFAULT component equals the default value',
    'a value the DER (CER) encoder rejects must be rejected for every replica (same exception class)',
    'descriptors without open types (their decoded form is a different abstract value by design)',
]
REAL = ['pyasn1.type.* construction API', 'pyasn1.codec.{ber,cer,der}.encoder', 'pyasn1.codec.{ber,cer,der}.decoder (for the decoded routes and the fixpoint)']
STUB = ['replica histories (construction routes and read-only operations)']

ROUTES = ['canonical', 'permuted', 'permuted', 'defaults-explicit', 'defaults-implicit', 'native-args',
          'decoded:ber', 'decoded:ber-indef', 'decoded:ber-chunk:2', 'decoded:ber-indef-chunk:3', 'decoded:der', 'decoded:cer',
          'decoded:variant', 'decoded:variant', 'decoded:realbase', 'clone', 'inplace', 'inplace', 'overwrite', 'subtyped', 'shared']
# read-only uses that may be interleaved *during* a construction (none of them is documented to instantiate)
MID_READS = ['der', 'cer', 'ber', 'prettyPrint', 'str', 'iter', 'eq', 'len', 'in', 'isValue']
READS = ['der', 'cer', 'ber', 'prettyPrint', 'str', 'iter', 'eq', 'len', 'in', 'isValue', 'values', 'getitem', 'getitem', 'items', 'deep_read']


def _P(k, **kw):
    d = {'k': k, 'tags': []}
    d.update(kw)
    return d


# the shapes the property text calls out, as a small hand-written catalogue (DESIGN.md section 2)
CATALOGUE = [
    (_P('SEQ', fields=[{'n': 'id', 'd': _P('INTEGER'), 'opt': 'R'},
                       {'n': 'path', 'd': _P('SEQOF', of=_P('INTEGER')), 'opt': 'D', 'dv': [1, 2]}]),
     [{'id': 7}, {'id': 7, 'path': [1, 2]}, {'id': 7, 'path': [2, 1]}, {'id': 7, 'path': [1, 2, 3]}, {'id': 7, 'path': []}]),
    (_P('SET', fields=[{'n': 'id', 'd': _P('INTEGER'), 'opt': 'R'},
                       {'n': 'names', 'd': _P('SEQOF', of=_P('OCTETSTRING'), tags=[['I', 'C', 0]]), 'opt': 'D', 'dv': ['61', '', '62']}]),
     [{'id': 0}, {'id': 0, 'names': ['61', '', '62']}, {'id': 0, 'names': ['62', '', '61']}, {'id': 0, 'names': ['61']}]),
    (_P('SEQ', fields=[{'n': 'a', 'd': _P('BOOLEAN'), 'opt': 'D', 'dv': True},
                       {'n': 'b', 'd': _P('INTEGER'), 'opt': 'D', 'dv': 5},
                       {'n': 'c', 'd': _P('OCTETSTRING'), 'opt': 'D', 'dv': '6162'},
                       {'n': 'e', 'd': _P('ENUMERATED', named=[['x', 0], ['y', 1]]), 'opt': 'D', 'dv': 1},
                       {'n': 'n', 'd': _P('NULL'), 'opt': 'O'},
                       {'n': 's', 'd': _P('UTF8', tags=[['E', 'C', 3]]), 'opt': 'D', 'dv': 'é'}]),
     [{}, {'a': True, 'b': 5}, {'a': False, 'c': '6162', 'n': ''}, {'b': 6, 'e': 1, 's': 'é'}, {'e': 0, 's': ''}]),
    (_P('SETOF', of=_P('INTEGER')), [[1, 256, -1, 1], [255, 256, 65536, 0], [], [3, 2, 1, 2, 3]]),
    (_P('SETOF', of=_P('OCTETSTRING')), [['00', '', '0000', 'ff'], ['61', '6161', '61']]),
    (_P('SET', fields=[{'n': 'z', 'd': _P('INTEGER', tags=[['I', 'C', 2]]), 'opt': 'R'},
                       {'n': 'y', 'd': _P('OCTETSTRING', tags=[['E', 'A', 1]]), 'opt': 'O'},
                       {'n': 'x', 'd': _P('BOOLEAN'), 'opt': 'R'},
                       {'n': 'w', 'd': _P('UTF8', tags=[['I', 'P', 0]]), 'opt': 'D', 'dv': 'w'}]),
     [{'z': 1, 'x': True}, {'z': 1, 'y': '00', 'x': False, 'w': 'w'}, {'z': -1, 'x': True, 'w': 'v'}]),
    # SET OF members that agree on a long prefix and differ only at the end (any bounded sort key ties them)
    (_P('SETOF', of=_P('OCTETSTRING')),
     [[{'rep': 'aa', 'n': 300, 'tail': '02'}, {'rep': 'aa', 'n': 300, 'tail': '01'}, {'rep': 'aa', 'n': 300}],
      [{'rep': 'aa', 'n': 1100, 'tail': '02'}, {'rep': 'aa', 'n': 1100, 'tail': '01'}],
      [{'rep': '5a', 'n': 70000, 'tail': '02'}, {'rep': '5a', 'n': 70000, 'tail': '01'}, {'rep': '5a', 'n': 70000, 'tail': '0100'}]]),
    # lazily instantiated nested containers (type/univ.py getComponentByPosition(instantiate=True))
    (_P('SEQ', fields=[{'n': 'id', 'd': _P('INTEGER'), 'opt': 'R'},
                       {'n': 'items', 'd': _P('SEQOF', of=_P('SEQ', fields=[{'n': 'a', 'd': _P('INTEGER'), 'opt': 'R'},
                                                                              {'n': 'b', 'd': _P('BOOLEAN'), 'opt': 'O'}])), 'opt': 'O'}]),
     [{'id': 1}, {'id': 1, 'items': [{'a': 7}]}, {'id': 1, 'items': [{'a': 7, 'b': True}, {'a': 0}]}, {'id': 1, 'items': []}]),
    (_P('SET', fields=[{'n': 'id', 'd': _P('INTEGER'), 'opt': 'R'},
                       {'n': 'grid', 'd': _P('SETOF', of=_P('SEQOF', of=_P('INTEGER')), tags=[['E', 'C', 1]]), 'opt': 'O'},
                       {'n': 'rec', 'd': _P('SEQ', fields=[{'n': 'in', 'd': _P('SET', fields=[{'n': 'x', 'd': _P('NULL'), 'opt': 'R'}]), 'opt': 'R'}],
                                            tags=[['I', 'C', 2]]), 'opt': 'O'}]),
     [{'id': 2, 'grid': [[1, 2], []]}, {'id': 2, 'rec': {'in': {'x': ''}}}, {'id': 2, 'grid': [[3]], 'rec': {'in': {'x': ''}}}]),
    # scalars at the octet-count boundaries of their content (REAL exponents, INTEGER magnitudes)
    (_P('REAL'), [[1, 2, e] for e in (-128, -129, 127, 128, -32768, -32769, 32767, 32768, -8388608, -8388609, 8388607, 8388608)]),
    (_P('INTEGER'), [127, 128, -128, -129, 32767, 32768, -32768, -32769, 0, -1, 2 ** 63, -2 ** 63 - 1]),
]


# canonical encodings written out BY HAND from X.690 (not produced by the library): decoding one and encoding
# the result must reproduce it byte for byte, so an encoder that is consistently wrong (drops an equal SET OF
# member, orders a SET by declaration) cannot hide behind agreeing with itself
GOLDEN = [
    (3, [1, 256, -1, 1], '310d0201010201010201ff02020100', '31800201010201010201ff020201000000'),
    (3, [3, 2, 1, 2, 3], '310f020101020102020102020103020103', '3180020101020102020102020103020103' + '0000'),
    (3, [], '3100', '31800000'),
    (4, ['00', '', '0000', 'ff'], '310c04000401000401ff04020000', '318004000401000401ff040200000000'),
    (4, ['61', '6161', '61'], '310a0401610401610402' + '6161', '31800401610401610402' + '6161' + '0000'),
    (0, {'id': 7}, '3003020107', '30800201070000'),
    (0, {'id': 7, 'path': [1, 2]}, '3003020107', '30800201070000'),
    (0, {'id': 7, 'path': [2, 1]}, '300b0201073006020102020101', '308002010730800201020201010000' + '0000'),
    (0, {'id': 7, 'path': []}, '30050201073000', '3080020107308000000000'),
    (5, {'z': 1, 'x': True}, '31060101ff820101', '31800101ff8201010000'),
    (5, {'z': 1, 'y': '00', 'x': False, 'w': 'w'}, '310b0101006103040100820101', '31800101006180040100' + '0000' + '820101' + '0000'),
    (5, {'z': -1, 'x': True, 'w': 'v'}, '31090101ff8201ffc00176', '31800101ff8201ffc001760000'),
    # X.690 8.5.7: binary REAL, base 2, mantissa 1; exponent in 1, 2, 3 octets or with a length octet (CER = DER)
    (9, [1, 2, -128], '0903808001', '0903808001'),
    (9, [1, 2, -129], '090481ff7f01', '090481ff7f01'),
    (9, [1, 2, 127], '0903807f01', '0903807f01'),
    (9, [1, 2, 128], '090481008001', '090481008001'),
    (9, [1, 2, -32768], '090481800001', '090481800001'),
    (9, [1, 2, -32769], '090582ff7fff01', '090582ff7fff01'),
    (9, [1, 2, 32767], '0904817fff01', '0904817fff01'),
    (9, [1, 2, 32768], '09058200800001', '09058200800001'),
    (9, [1, 2, -8388608], '09058280000001', '09058280000001'),
    (9, [1, 2, -8388609], '09078304ff7fffff01', '09078304ff7fffff01'),
    (9, [1, 2, 8388607], '0905827fffff01', '0905827fffff01'),
    (9, [1, 2, 8388608], '090783040080000001', '090783040080000001'),
    (10, 127, '02017f', '02017f'), (10, 128, '02020080', '02020080'), (10, -128, '020180', '020180'),
    (10, -129, '0202ff7f', '0202ff7f'), (10, 32767, '02027fff', '02027fff'), (10, 32768, '0203008000', '0203008000'),
    (10, -32768, '02028000', '02028000'), (10, -32769, '0203ff7fff', '0203ff7fff'), (10, 0, '020100', '020100'),
    (10, -1, '0201ff', '0201ff'), (10, 2 ** 63, '0209008000000000000000', '0209008000000000000000'),
    (10, -2 ** 63 - 1, '0209ff7fffffffffffffff', '0209ff7fffffffffffffff'),
    # one of each remaining scalar kind, identifiers and lengths at their form boundaries (a descriptor instead
    # of a catalogue index; no CER bytes where CER differs by the open finding F2)
    (_P('BOOLEAN'), True, '0101ff', '0101ff'), (_P('BOOLEAN'), False, '010100', '010100'), (_P('NULL'), '', '0500', '0500'),
    (_P('OID'), [1, 2, 840, 113549], '06062a864886f70d', '06062a864886f70d'), (_P('OID'), [2, 999, 3], '0603883703', '0603883703'),
    (_P('OID'), [0, 0], '060100', '060100'), (_P('OID'), [2, 0], '060150', '060150'), (_P('OID'), [1, 39, 128], '06034f8100', '06034f8100'),
    (_P('BITSTRING'), '1011', '030204b0', '030204b0'), (_P('BITSTRING'), '', '030100', '030100'),
    (_P('BITSTRING'), '10110000', '030200b0', '030200b0'), (_P('BITSTRING'), '0', '03020700', '03020700'),
    (_P('OCTETSTRING'), '41' * 127, '047f' + '41' * 127, '047f' + '41' * 127),
    (_P('OCTETSTRING'), '41' * 128, '048180' + '41' * 128, '048180' + '41' * 128),
    (_P('OCTETSTRING'), '41' * 256, '04820100' + '41' * 256, '04820100' + '41' * 256),
    (_P('UTF8'), '\u00e9', '0c02c3a9', '0c02c3a9'),
    (_P('INTEGER', tags=[['E', 'C', 5]]), 5, 'a503020105', None), (_P('INTEGER', tags=[['I', 'C', 5]]), 5, '850105', '850105'),
    (_P('INTEGER', tags=[['I', 'C', 30]]), 5, '9e0105', '9e0105'), (_P('INTEGER', tags=[['I', 'C', 31]]), 5, '9f1f0105', '9f1f0105'),
    (_P('INTEGER', tags=[['I', 'C', 128]]), 5, '9f81000105', '9f81000105'),
    (_P('INTEGER', tags=[['E', 'A', 16383]]), 5, '7fff7f03020105', None),
    (_P('REAL'), [5, 2, 1], '0903800105', '0903800105'), (_P('REAL'), [-1, 2, -1], '0903c0ff01', '0903c0ff01'),
    (_P('REAL'), [6, 2, 0], '0903800103', '0903800103'), (_P('REAL'), [0, 2, 0], '0900', '0900'),
    (_P('REAL'), [255, 2, 0], '09038000ff', '09038000ff'), (_P('REAL'), [256, 2, 0], '0903800801', '0903800801'),
    (_P('ENUMERATED', named=[['x', 0], ['y', 1]]), 1, '0a0101', '0a0101'),
]


def _gen_mid_reads(r):
    if r.random() < 0.4:
        op = r.choice(MID_READS)         # the same read-only use after every construction step
        return [[t, op, 0] for t in range(40)]
    return sorted([r.randrange(12), r.choice(MID_READS), r.randrange(4)] for _ in range(r.choice([0, 1, 2, 4])))


def _gen_catalogue(r):
    desc, values = r.choice(CATALOGUE)
    golden = None
    if r.random() < 0.4:
        ci, gv, gd, gc = r.choice(GOLDEN)
        desc, values = (ci if isinstance(ci, dict) else CATALOGUE[ci][0]), [gv]
        golden = {'der': gd, 'cer': gc}
    reps = []
    routes = ['canonical', 'permuted', 'permuted', 'defaults-explicit', 'defaults-implicit', 'native-args',
              'decoded:ber', 'decoded:ber-indef', 'decoded:der', 'clone', 'inplace', 'inplace', 'overwrite', 'subtyped', 'shared']
    for i in range(r.randrange(2, 6)):
        rep = {'route': r.choice(routes), 'perm': r.randrange(1 << 30),
               'reads': [[r.choice(READS), r.randrange(4)] for _ in range(r.choice([0, 0, 1, 3]))]}
        if rep['route'] == 'clone':
            rep['of'] = r.choice(['canonical', 'permuted', 'inplace'])
        if rep['route'] == 'inplace':
            rep['mid_reads'] = _gen_mid_reads(r)
        reps.append(rep)
    if all(x['route'] == reps[0]['route'] for x in reps):
        reps[0]['route'] = 'canonical'
        reps[-1]['route'] = 'permuted'
    pl = {'check': ID, 'desc': copy.deepcopy(desc), 'value': copy.deepcopy(r.choice(values)), 'replicas': reps,
          'catalogue': True}
    if golden:
        pl['golden'] = golden
    return pl


def gen_plan(r, index, tier):
    if r.random() < 0.15:
        return _gen_catalogue(r)
    w, cfg = common.gen_stream_workload(r, max_values=1, small=r.random() < 0.5, force_codec='ber', allow_f2=True, variants=False,
                                        constructed_default=r.random() < 0.5)
    desc = w['desc']
    if U.has_open(desc):
        cfg2 = U.GenCfg(max_depth=2, allow_open=False, allow_any=False)
        desc = U.gen_desc(r, cfg2)
        w['values'] = [U.gen_value(r, desc, U.ValCfg(small=True))]
    chars = U.has_kind(desc, U.CHARS + U.TIMES)
    reps = []
    for i in range(r.randrange(2, 6)):
        route = r.choice(ROUTES)
        if chars and 'chunk' in route:
            route = 'decoded:ber-indef'
        rep = {'route': route, 'perm': r.randrange(1 << 30),
               'reads': [[r.choice(READS), r.randrange(4)] for _ in range(r.choice([0, 0, 1, 3, 6]))]}
        if route == 'clone':
            rep['of'] = r.choice(['canonical', 'permuted', 'decoded:ber'])
            rep['how'] = r.choice(['clone', 'clone', 'clone', 'clone', 'pickle', 'copy'])
        if route == 'defaults-explicit' and r.random() < 0.4:
            rep['api'] = 'setDefaultComponents'
        if route == 'inplace':
            # built the documented lazy way (outer['items'][0]['a'] = 7) with read-only uses of the
            # still incomplete value in between
            rep['mid_reads'] = _gen_mid_reads(r)
        if route == 'decoded:variant':
            # another BER form of the same value: framing edits X.690 declares equivalent
            rep['base'] = r.choice(['ber', 'ber', 'ber-indef'] + ([] if chars else ['ber-chunk:2']))
            rep['variant'] = corrupt.gen_variant_ops(r)
        if route == 'decoded:realbase':
            if U.has_kind(desc, ('REAL',)):
                rep['base'] = r.choice(['ber', 'ber-indef'])
                rep['realbase'] = r.choice([2, 8, 16])
            else:
                rep['route'] = 'decoded:variant'
                rep['base'] = 'ber'
                rep['variant'] = corrupt.gen_variant_ops(r)
        reps.append(rep)
    if all(x['route'] == reps[0]['route'] for x in reps):
        reps[0]['route'] = 'canonical'
        reps[-1]['route'] = 'permuted'
    return {'check': ID, 'desc': desc, 'value': w['values'][0], 'replicas': reps}


# ---------------------------------------------------------------------------
# construction routes

def _shuffled(seq, rnd):
    seq = list(seq)
    rnd.shuffle(seq)
    return seq


def _decoy(desc, x, rnd):
    """Another value of the same type to be overwritten by x: preferably one that a careless comparison
    takes for x (the same number in the other REAL base), else any other value."""
    k = desc['k']
    if k == 'REAL' and rnd.random() < 0.7:
        try:
            if isinstance(x, float) and x == x and abs(x) != float('inf'):
                num, den = x.as_integer_ratio()
                if den & (den - 1) == 0 and abs(num) < 2 ** 60:
                    return [num, 2, -(den.bit_length() - 1)]
            if isinstance(x, list) and x[1] == 2 and abs(x[2]) < 200:
                return float(x[0]) * 2.0 ** x[2]
        except (OverflowError, ValueError):
            pass
    for _ in range(4):
        y = U.gen_value(rnd, desc, U.ValCfg(small=True))
        if y != x:
            return y
    return None


def _assign_twice(setter, sub, d, x, rnd):
    """decoy first, then the target; the target as a bare Python value when the type allows."""
    y = _decoy(d, x, rnd)
    if y is not None:
        try:
            setter(U.build_value(sub, d, y))
        except Exception:
            pass
    if d['k'] in U.PRIMS and rnd.random() < 0.6:
        setter(U.prim_arg(d, x))
    else:
        setter(U.build_value(sub, d, x))


def build_overwrite(schema, desc, v, rnd):
    k = desc['k']
    if k in ('SEQ', 'SET'):
        obj = schema.clone()
        nts = schema.componentType
        present = [(f, v[f['n']]) for f in desc['fields'] if f['n'] in v]
        for f, x in present:
            sub = nts[f['n']].asn1Object
            if f['d']['k'] in U.PRIMS and not f.get('open'):
                _assign_twice(lambda val, n_=f['n']: obj.setComponentByName(n_, val), sub, f['d'], x, rnd)
            else:
                obj.setComponentByName(f['n'], build_overwrite(sub, f['d'], x, rnd))
        if not present and not desc['fields']:
            obj.clear()
        return obj
    if k in ('SEQOF', 'SETOF'):
        obj = schema.clone()
        obj.clear()
        for i, x in enumerate(v):
            if desc['of']['k'] in U.PRIMS:
                _assign_twice(lambda val, i_=i: obj.setComponentByPosition(i_, val), schema.componentType, desc['of'], x, rnd)
            else:
                obj.setComponentByPosition(i, build_overwrite(schema.componentType, desc['of'], x, rnd))
        return obj
    if k == 'CHOICE':
        obj = schema.clone()
        name, x = v
        sub = schema.componentType[name].asn1Object
        a = dict((n, d) for n, d in desc['alts'])[name]
        if a['k'] in U.PRIMS:
            _assign_twice(lambda val: obj.setComponentByName(name, val), sub, a, x, rnd)
        else:
            obj.setComponentByName(name, build_overwrite(sub, a, x, rnd))
        return obj
    return U.build_value(schema, desc, v)


def _narrowed(sub, d, x, rnd):
    """The value as an object of a NARROWER subtype of the component type (Percent(50) into an INTEGER
    field): same abstract value, another type object behind it."""
    C = U.p.constraint
    k = d['k']
    try:
        if k in ('INTEGER', 'ENUMERATED') and isinstance(x, int) and not isinstance(x, bool):
            extra = C.ValueRangeConstraint(x - rnd.choice([0, 1, 50]), x + rnd.choice([0, 1, 50]))
        elif k == 'OCTETSTRING':
            n = len(x) // 2
            extra = C.ValueSizeConstraint(max(0, n - rnd.choice([0, 1])), n + rnd.choice([0, 3]))
        elif k in U.CHARS:
            extra = C.ValueSizeConstraint(max(0, len(x) - rnd.choice([0, 1])), len(x) + rnd.choice([0, 3]))
        else:
            return U.build_value(sub, d, x)
        return sub.subtype(subtypeSpec=extra).clone(U.prim_arg(d, x))
    except Exception:
        return U.build_value(sub, d, x)


def build_shared(schema, desc, v, memo):
    """Canonical construction in which equal sub-values of the same type are ONE object referenced from
    several places (cert['issuer'] = name; cert['subject'] = name;  records.extend([record] * 2))."""
    k = desc['k']
    key = (P.canon(desc), P.canon(v))
    if key in memo:
        return memo[key]
    if k in ('SEQ', 'SET'):
        obj = schema.clone()
        nts = schema.componentType
        present = [(f, v[f['n']]) for f in desc['fields'] if f['n'] in v]
        for f, x in present:
            obj.setComponentByName(f['n'], build_shared(nts[f['n']].asn1Object, f['d'], x, memo))
        if not present and not desc['fields']:
            obj.clear()
    elif k in ('SEQOF', 'SETOF'):
        obj = schema.clone()
        obj.clear()
        for i, x in enumerate(v):
            obj.setComponentByPosition(i, build_shared(schema.componentType, desc['of'], x, memo))
    elif k == 'CHOICE':
        obj = schema.clone()
        name, x = v
        a = dict((n, d) for n, d in desc['alts'])[name]
        obj.setComponentByName(name, build_shared(schema.componentType[name].asn1Object, a, x, memo))
    else:
        obj = U.build_value(schema, desc, v)
    memo[key] = obj
    return obj


def build_route(schema, desc, v, route, rnd):
    """Build the value of `desc` along `route`.  rnd is a Random seeded from the plan."""
    if route == 'overwrite':
        return build_overwrite(schema, desc, v, rnd)
    if route == 'shared':
        return build_shared(schema, desc, v, {})
    k = desc['k']
    if route == 'subtyped' and k in U.PRIMS and rnd.random() < 0.8:
        return _narrowed(schema, desc, v, rnd)
    if k in U.PRIMS or k == 'ANY':
        if route == 'native-args' and k in U.PRIMS:
            return schema.clone(U.prim_arg(desc, v))
        return U.build_value(schema, desc, v)
    if k in ('SEQ', 'SET'):
        obj = schema.clone()
        nts = schema.componentType
        fields = [f for f in desc['fields']]
        present = []
        for f in fields:
            if f['n'] in v:
                present.append((f, v[f['n']]))
            elif f['opt'] == 'D' and route in ('defaults-explicit', 'subtyped'):
                present.append((f, f['dv']))
        if route == 'defaults-implicit':
            present = [(f, x) for f, x in present if not (f['opt'] == 'D' and x == f['dv'])]
        if route == 'permuted':
            present = _shuffled(present, rnd)
        for f, x in present:
            sub = nts[f['n']].asn1Object
            child = build_route(sub, f['d'], x, route, rnd)
            how = rnd.randrange(3) if route == 'permuted' else 0
            if how == 0:
                obj.setComponentByName(f['n'], child)
            elif how == 1:
                obj.setComponentByPosition(nts.getPositionByName(f['n']), child)
            else:
                obj[f['n']] = child
        if not present:
            obj.clear() if not fields else None
        return obj
    if k in ('SEQOF', 'SETOF'):
        obj = schema.clone()
        obj.clear()
        items = list(v)
        if route == 'permuted' and k == 'SETOF':
            items = _shuffled(items, rnd)
        if route == 'permuted' and len(items) > 1 and rnd.random() < 0.5:
            # fill the positions in a scrambled order (the library accepts assignment beyond len)
            order = _shuffled(range(len(items)), rnd)
            for i in order:
                obj.setComponentByPosition(i, build_route(schema.componentType, desc['of'], items[i], route, rnd))
            return obj
        for i, x in enumerate(items):
            child = build_route(schema.componentType, desc['of'], x, route, rnd)
            if route == 'permuted' and rnd.random() < 0.5:
                obj.append(child)
            else:
                obj.setComponentByPosition(i, child)
        return obj
    if k == 'CHOICE':
        obj = schema.clone()
        name, x = v
        sub = schema.componentType[name].asn1Object
        a = dict((n, d) for n, d in desc['alts'])[name]
        if route == 'permuted' and len(desc['alts']) > 1:
            # select another alternative first, then the target (re-selection)
            other = [n for n, d in desc['alts'] if n != name][0]
            od = dict((n, d) for n, d in desc['alts'])[other]
            try:
                obj.setComponentByName(other, U.build_value(schema.componentType[other].asn1Object, od,
                                                            U.gen_value(rnd, od, U.ValCfg(small=True))))
            except Exception:
                pass
        obj.setComponentByName(name, build_route(sub, a, x, route, rnd))
        return obj
    raise ValueError(k)


def _set_defaults(obj, depth=0):
    univ = U.p.univ
    if depth > 10:
        return
    if isinstance(obj, univ.Choice):
        try:
            _set_defaults(obj.getComponent(), depth + 1)
        except Exception:
            pass
    elif isinstance(obj, (univ.Sequence, univ.Set)):
        for i in range(len(obj.componentType)):
            c = obj.getComponentByPosition(i, default=None, instantiate=False)
            if c is not None:
                _set_defaults(c, depth + 1)
        obj.setDefaultComponents()
    elif isinstance(obj, (univ.SequenceOf, univ.SetOf)):
        for i in range(len(obj)):
            c = obj.getComponentByPosition(i, default=None, instantiate=False)
            if c is not None:
                _set_defaults(c, depth + 1)


def _set_real_base(obj, base, depth=0):
    """The BER encoder's documented per-value hint for binary REALs (univ.Real.binEncBase)."""
    univ = U.p.univ
    if depth > 12:
        return
    if isinstance(obj, univ.Real):
        obj.binEncBase = base
    elif isinstance(obj, univ.Choice):
        try:
            _set_real_base(obj.getComponent(), base, depth + 1)
        except Exception:
            pass
    elif isinstance(obj, (univ.Sequence, univ.Set)):
        for i in range(len(obj.componentType) or len(obj)):
            c = obj.getComponentByPosition(i, default=None, instantiate=False)
            if c is not None:
                _set_real_base(c, base, depth + 1)
    elif isinstance(obj, (univ.SequenceOf, univ.SetOf)):
        for i in range(len(obj)):
            c = obj.getComponentByPosition(i, default=None, instantiate=False)
            if c is not None:
                _set_real_base(c, base, depth + 1)


_CONSTRUCTED_INPLACE = ('SEQ', 'SET', 'SEQOF', 'SETOF')


def build_inplace(root, obj, schema, desc, v, mid):
    """Fill obj (the root, or a component obtained by an instantiating read) in place."""
    k = desc['k']
    if k in ('SEQ', 'SET'):
        nts = schema.componentType
        present = [(f, v[f['n']]) for f in desc['fields'] if f['n'] in v]
        for f, x in present:
            sub = nts[f['n']].asn1Object
            if f['d']['k'] in _CONSTRUCTED_INPLACE and not f.get('open'):
                child = obj[f['n']]                  # documented: instantiates the component
                mid()
                build_inplace(root, child, sub, f['d'], x, mid)
            else:
                obj[f['n']] = U.build_value(sub, f['d'], x)
            mid()
        if not present and not desc['fields']:
            obj.clear()
    else:
        obj.clear()
        for i, x in enumerate(v):
            if desc['of']['k'] in _CONSTRUCTED_INPLACE:
                child = obj[i]                       # documented: reading position len() appends a new element
                mid()
                build_inplace(root, child, schema.componentType, desc['of'], x, mid)
            else:
                obj.append(U.build_value(schema.componentType, desc['of'], x))
            mid()


def make_replica(schema, desc, v, rep):
    route = rep['route']
    rnd = random.Random(rep['perm'])
    if route == 'inplace':
        if desc['k'] not in _CONSTRUCTED_INPLACE:
            return build_route(schema, desc, v, 'canonical', rnd)
        obj = schema.clone()
        pending = [list(x) for x in rep.get('mid_reads') or []]
        tick = [0]

        def mid():
            while pending and pending[0][0] <= tick[0]:
                _at, op, arg = pending.pop(0)
                do_read(obj, op, arg)
            tick[0] += 1
        build_inplace(obj, obj, schema, desc, v, mid)
        return obj
    if route.startswith('decoded:'):
        codec = route.split(':', 1)[1]
        if codec in ('variant', 'realbase'):
            codec = rep.get('base', 'ber')
        enc, dec, opts = U.codec(codec)
        base_obj = U.build_value(schema, desc, v)
        if rep.get('realbase'):
            _set_real_base(base_obj, rep['realbase'])
        data = enc.encode(base_obj, **opts)
        if rep.get('variant'):
            data = corrupt.apply_variant(data, rep['variant'])
        obj, rest = dec.decode(data, asn1Spec=schema)
        if rest:
            raise W.Skip('decoded-route-remainder')
        return obj
    if route == 'clone':
        src = make_replica(schema, desc, v, {'route': rep.get('of', 'canonical'), 'perm': rep['perm']})
        if rep.get('of', '').startswith('decoded:') and \
                U.absval_canon(src) != U.absval_canon(U.build_value(schema, desc, v)):
            raise W.Skip('decoded-source-not-faithful')     # C01 territory, see execute()
        how = rep.get('how', 'clone')
        if how == 'pickle':
            import pickle
            return pickle.loads(pickle.dumps(src))
        if how == 'copy':
            import copy as _copy
            return _copy.copy(src)
        return src.clone(cloneValueFlag=True) if isinstance(src, U.p.base.ConstructedAsn1Type) else src.clone()
    if route == 'subtyped' and desc['k'] in U.PRIMS:
        route = 'canonical'      # a top-level object of a narrower type is not "a value of the same type"
    if route == 'defaults-explicit' and rep.get('api') == 'setDefaultComponents':
        # the documented API for "set the DEFAULT components explicitly", applied at every level
        obj = build_route(schema, desc, v, 'canonical', rnd)
        _set_defaults(obj)
        return obj
    return build_route(schema, desc, v, route, rnd)


def _enc(mod, obj):
    from pyasn1 import error
    try:
        return mod.encode(obj)
    except error.PyAsn1Error as e:
        return 'PyAsn1Error'
    except Exception as e:
        return 'raises:' + type(e).__name__


def do_read(obj, op, arg):
    from pyasn1.codec.ber import encoder as benc
    from pyasn1.codec.cer import encoder as cenc
    from pyasn1.codec.der import encoder as denc
    univ = U.p.univ
    try:
        if op == 'der':
            denc.encode(obj)
        elif op == 'cer':
            cenc.encode(obj)
        elif op == 'ber':
            benc.encode(obj, defMode=bool(arg % 2))
        elif op == 'prettyPrint':
            obj.prettyPrint()
        elif op == 'str':
            str(obj)
            repr(obj)
        elif op == 'iter':
            if isinstance(obj, (univ.SequenceOf, univ.SetOf, univ.Sequence, univ.Set, univ.Choice)):
                for x in obj:
                    pass
        elif op == 'eq':
            obj == obj
            obj != obj
        elif op == 'len':
            if isinstance(obj, (univ.SequenceOf, univ.SetOf, univ.Sequence, univ.Set, univ.Choice)):
                len(obj)
        elif op == 'in':
            if isinstance(obj, (univ.Sequence, univ.Set, univ.Choice)):
                'f0' in obj
        elif op == 'isValue':
            obj.isValue
        elif op == 'values':
            if isinstance(obj, (univ.Sequence, univ.Set)) and not isinstance(obj, univ.Choice):
                for v_ in obj.values():      # dict-style iteration: goes through __getitem__
                    pass
        elif op == 'items':
            if isinstance(obj, (univ.Sequence, univ.Set)) and not isinstance(obj, univ.Choice):
                dict(obj.items())
        elif op == 'getitem':
            # subscript read of one component, present or not (a read in the eyes of the caller)
            if isinstance(obj, (univ.Sequence, univ.Set)) and not isinstance(obj, univ.Choice) and len(obj.componentType):
                obj[arg % len(obj.componentType)]
            elif isinstance(obj, (univ.SequenceOf, univ.SetOf)) and len(obj):
                obj[arg % len(obj)]
        elif op == 'deep_read':
            _deep_read(obj, 0)
    except Exception:
        # a read-only use may refuse (e.g. == on absent OPTIONAL, F9f); what matters here is
        # that it leaves the encodings alone
        return False
    return True


def _deep_read(obj, depth):
    """Walk the whole value with subscript reads, the way application code prints or inspects it."""
    univ = U.p.univ
    if depth > 6:
        return
    if isinstance(obj, univ.Choice):
        try:
            _deep_read(obj.getComponent(), depth + 1)
        except Exception:
            pass
    elif isinstance(obj, (univ.Sequence, univ.Set)):
        for i in range(len(obj.componentType)):
            _deep_read(obj[i], depth + 1)
    elif isinstance(obj, (univ.SequenceOf, univ.SetOf)):
        for i in range(len(obj)):
            _deep_read(obj[i], depth + 1)


def execute(plan):
    from pyasn1.codec.cer import encoder as cenc, decoder as cdec
    from pyasn1.codec.der import encoder as denc, decoder as ddec
    trace = []
    ctr = {}
    desc, v = plan['desc'], plan['value']
    try:
        schema = U.build_schema(desc)
        if U.schema_problem(schema):
            return common.skip_result('schema-ill-formed')
    except Exception as e:
        return common.skip_result('schema-build:%s' % type(e).__name__)
    ders, cers, objs = [], [], []
    try:
        target = U.absval_canon(U.build_value(schema, desc, v))
    except Exception as e:
        return common.skip_result('value-build:%s' % type(e).__name__)
    try:
        for ri, rep in enumerate(plan['replicas']):
            try:
                obj = make_replica(schema, desc, v, rep)
            except W.Skip as s:
                ctr['route-skipped.%s' % s.reason] = ctr.get('route-skipped.%s' % s.reason, 0) + 1
                continue
            except Exception as e:
                trace.append(['replica', ri, rep['route'], 'build-failed', type(e).__name__])
                ctr['route-failed.%s' % rep['route'].split(':')[0]] = 1
                continue
            if rep['route'].startswith('decoded:') and U.absval_canon(obj) != target:
                # this route did not reach the target abstract value: for a decoded route that is a
                # round-trip defect (C01/C02/C09), not a dependence of DER on the history
                trace.append(['replica', ri, rep['route'], 'not-the-target-value'])
                ctr['probe.route-did-not-reach-target.%s' % rep['route'].split(':')[0]] = 1
                continue
            d0, c0 = _enc(denc, obj), _enc(cenc, obj)
            a0 = U.absval_norm(obj)
            trace.append(['replica', ri, rep['route'], len(d0) if isinstance(d0, bytes) else d0])
            for op, arg in rep['reads']:
                ok = do_read(obj, op, arg)
                trace.append(['read', ri, op, ok])
                d1, c1 = _enc(denc, obj), _enc(cenc, obj)
                if d1 != d0 or c1 != c0:
                    raise W.Violation('read-only-use-changed-encoding', replica=ri, route=rep['route'], op=op,
                                      codec='der' if d1 != d0 else 'cer',
                                      before=_h(d0 if d1 != d0 else c0), after=_h(d1 if d1 != d0 else c1))
            ders.append((ri, rep['route'], d0))
            cers.append((ri, rep['route'], c0))
            objs.append(obj)
            rk = 'route.%s' % ('-'.join(rep['route'].split(':')[:2]) if rep['route'].split(':')[-1] in ('variant', 'realbase')
                               else rep['route'].split(':')[0])
            ctr[rk] = ctr.get(rk, 0) + 1
            for op_ in rep.get('variant') or ():
                ctr['variant.%s' % op_[0]] = ctr.get('variant.%s' % op_[0], 0) + 1
        if len(ders) < 2:
            return common.skip_result('fewer-than-two-replicas')
        for name, encs in (('der', ders), ('cer', cers)):
            ri0, route0, e0 = encs[0]
            for ri, route, e in encs[1:]:
                if e != e0:
                    raise W.Violation('replicas-diverge', codec=name, a=route0, b=route, a_bytes=_h(e0), b_bytes=_h(e),
                                      routes=sorted([route0.split(':')[0], route.split(':')[0]]))
        # fixpoint
        for name, enc, dec, e in (('der', denc, ddec, ders[0][2]), ('cer', cenc, cdec, cers[0][2])):
            if not isinstance(e, bytes):
                ctr['encoder-rejects.%s' % name] = 1
                continue
            try:
                back, rest = dec.decode(e, asn1Spec=schema)
            except Exception as ex:
                ctr['probe.canonical-not-decodable.%s' % name] = 1   # C02 territory
                continue
            if rest or U.absval_canon(back) != target:
                ctr['probe.canonical-decodes-to-other-value.%s' % name] = 1   # C02 territory
                continue
            e2 = _enc(enc, back)
            if e2 != e or rest:
                raise W.Violation('reencoding-decoded-canonical-differs', codec=name, first=_h(e), second=_h(e2),
                                  remainder=_h(bytes(rest)))
        # hand-written canonical bytes: decode, encode, compare; and every replica must have produced them
        for name, enc, dec in (('der', denc, ddec), ('cer', cenc, cdec)):
            g = (plan.get('golden') or {}).get(name)
            if not g:
                continue
            g = bytes.fromhex(g)
            ctr['golden.%s' % name] = 1
            try:
                back, rest = dec.decode(g, asn1Spec=schema)
            except Exception as ex:
                ctr['probe.golden-not-decodable.%s' % name] = 1       # C02/C03 territory
                continue
            if rest or U.absval_canon(back) != target:
                ctr['probe.golden-decodes-to-other-value.%s' % name] = 1
                continue
            e2 = _enc(enc, back)
            if e2 != g:
                raise W.Violation('reencoding-decoded-canonical-differs', codec=name, first=_h(g), second=_h(e2), golden=True)
            first = (ders if name == 'der' else cers)[0]
            if first[2] != g:
                raise W.Violation('replicas-diverge', codec=name, a='hand-written', b=first[1], a_bytes=_h(g), b_bytes=_h(first[2]),
                                  routes=sorted(['golden', first[1].split(':')[0]]))
    except W.Violation as viol:
        sig = [viol.invariant, viol.detail.get('codec'), viol.detail.get('op') or '/'.join(viol.detail.get('routes', []))]
        return common.violation_result(viol, sig, trace, ctr, None, None, {'kind': 'none'}, None)
    routes = set(x[1] for x in ders)
    nontrivial = len(routes) > 1 and isinstance(ders[0][2], bytes) and isinstance(cers[0][2], bytes)
    res = common.ok_result(trace, ctr, None, nontrivial)
    res['evals'] = len(ders)
    return res


def _h(x):
    return x.hex()[:200] if isinstance(x, bytes) else U.safe_repr(x, 80)


def shrink_candidates(plan):
    reps = plan['replicas']
    if len(reps) > 2:
        for i in range(len(reps)):
            c = copy.deepcopy(plan)
            del c['replicas'][i]
            yield c
    for i, rep in enumerate(reps):
        if rep['reads']:
            c = copy.deepcopy(plan)
            c['replicas'][i]['reads'] = []
            yield c
            for j in range(len(rep['reads'])):
                c = copy.deepcopy(plan)
                del c['replicas'][i]['reads'][j]
                yield c
        if rep['route'] != 'canonical':
            c = copy.deepcopy(plan)
            c['replicas'][i]['route'] = 'canonical'
            yield c
        if rep.get('mid_reads'):
            c = copy.deepcopy(plan)
            c['replicas'][i]['mid_reads'] = []
            yield c
            if len(rep['mid_reads']) > 1:
                for j in range(len(rep['mid_reads'])):
                    c = copy.deepcopy(plan)
                    del c['replicas'][i]['mid_reads'][j]
                    yield c
        if len(rep.get('variant') or []) > 1:
            for j in range(len(rep['variant'])):
                c = copy.deepcopy(plan)
                del c['replicas'][i]['variant'][j]
                yield c
    for nd, nvs in common.shrink_desc_values(plan['desc'], [plan['value']]):
        c = copy.deepcopy(plan)
        c['desc'] = nd
        c['value'] = nvs[0]
        yield c
