"""Shared pieces of the stream-world checks (C05 C06 C07 C08 C10 C11)."""
import copy

from simkit import plan as P, tlv, universe as U, world as W

CODEC_CHOICES = ['ber', 'ber', 'ber', 'ber-indef', 'ber-indef', 'ber-indef', 'ber-chunk:1', 'ber-chunk:2', 'ber-chunk:3',
                 'ber-chunk:7', 'ber-chunk:150', 'ber-chunk:1000', 'ber-indef-chunk:3', 'ber-indef-chunk:150',
                 'ber-indef-chunk:1000', 'cer', 'cer', 'cer', 'der', 'der', 'der', 'ber-indef-int', 'ber-def-int']


def decoder_for(codec):
    return 'cer' if codec == 'cer' else ('der' if codec == 'der' else 'ber')


def gen_stream_workload(r, max_values=4, small=False, force_codec=None, allow_f2=None,
                        constraints=False, constructed_default=False, variants=True, scale=True, rawdump=False,
                        untyped_of=False, octet_encoding=False):
    codec = force_codec or r.choice(CODEC_CHOICES)
    cfg = U.GenCfg()
    cfg.max_depth = r.choice([1, 2, 3, 3]) if not small else r.choice([1, 2])
    cfg.max_fields = r.choice([2, 3, 5, 5, 9]) if not small else r.choice([3, 3, 3, 9])
    prims = list(U.PRIMS)
    if 'chunk' in codec:
        # chunked character/time strings: unbounded encoder recursion and undecodable
        # output (defects of unclaimed C01) -- never generated
        prims = [k for k in prims if k not in U.CHARS and k not in U.TIMES]
    if r.random() < 0.5:
        prims = r.sample(prims, r.randrange(2, len(prims) + 1))
    cfg.prims = prims
    cfg.allow_any = r.random() < 0.5
    if ('indef' in codec or codec == 'cer') and r.random() < 0.8:
        # explicitly tagged ANY inside an indefinite-length SET is not decodable
        # by the trivial schedule either (defect of unclaimed C01): mostly avoided
        cfg.allow_any = False
    cfg.allow_open = r.random() < 0.4
    cfg.allow_choice = r.random() < 0.8
    cfg.allow_tags = r.random() < 0.85
    cfg.allow_implicit = r.random() < 0.7
    cfg.allow_constraints = constraints
    cfg.allow_constructed_default = constructed_default
    cfg.allow_untyped_of = untyped_of
    cfg.allow_octet_encoding = octet_encoding
    indef = ('indef' in codec) or codec == 'cer'
    if allow_f2 is None:
        # explicitly tagged non-string primitives in indefinite mode are not well framed (F2)
        cfg.allow_exp_prim = (not indef) or r.random() < 0.1
    else:
        cfg.allow_exp_prim = allow_f2
    desc = U.gen_desc(r, cfg)
    nv = r.randrange(1, max_values + 1)
    if scale and not small and not constraints and 'chunk' not in codec and r.random() < 0.03:
        # shapes that composition rarely reaches: wide records, long collections, many alternatives,
        # deep tag stacks, deep nesting
        sdesc, svalue = U.gen_scale(r)
        w = {'desc': sdesc, 'values': [svalue] * min(nv, 2), 'codec': codec, 'decoder': decoder_for(codec),
             'use_spec': True, 'open_types': False, 'scale': True}
        return w, cfg
    big = (not small and r.random() < 0.08)
    if codec.endswith(':150') or codec.endswith(':1000'):
        big = r.random() < 0.6       # fragments with long-form lengths need strings beyond the chunk size
        small = small and not big
    vc = U.ValCfg(small=small, big_strings=big)
    values = [U.gen_value(r, desc, vc) for _ in range(nv)]
    use_spec = True
    if not U.has_implicit(desc) and not U.has_open(desc) and r.random() < 0.25:
        use_spec = False
        # schemaless decoding of an empty container yields None (F7, C08/C16 territory)
        for i in range(len(values)):
            for _ in range(6):
                if not has_empty_container(desc, values[i]):
                    break
                values[i] = U.gen_value(r, desc, vc)
    w = {'desc': desc, 'values': values, 'codec': codec, 'decoder': decoder_for(codec),
         'use_spec': use_spec, 'open_types': U.has_open(desc)}
    if rawdump and decoder_for(codec) == 'ber' and not U.has_open(desc) and r.random() < 0.06:
        # the customised decoder that dumps unrecognised items raw, without a guiding type (any tags will do)
        w['decoder'] = 'ber-rawdump'
        w['use_spec'] = False
    if r.random() < 0.25:
        w['style'] = 'class'        # types declared as user subclasses with class-level attributes
    if variants and decoder_for(codec) == 'ber' and r.random() < 0.25:
        from simkit import corrupt
        w['variant'] = corrupt.gen_variant_ops(r)
    return w, cfg


def has_empty_container(desc, v):
    k = desc['k']
    if k in ('SEQ', 'SET'):
        if not v:
            return True
        for f in desc['fields']:
            if f['n'] in v and not f.get('open') and has_empty_container(f['d'], v[f['n']]):
                return True
        return False
    if k in ('SEQOF', 'SETOF'):
        return not v or any(has_empty_container(desc['of'], x) for x in v)
    if k == 'CHOICE':
        a = dict((n, d) for n, d in desc['alts'])[v[0]]
        return has_empty_container(a, v[1])
    return False


def stream_shape(w):
    try:
        wl = W.Workload(w)
    except W.Skip:
        return None, None
    return len(wl.stream), W.structural_points(wl.encodings)


def gen_bio_schedule(r, total, faults):
    steps = []
    n = r.choice([4, 12, 40])
    for _ in range(n):
        x = r.random()
        if x < 0.6 or not faults:
            steps.append(['poll', 0])
        else:
            f = r.choice(faults)
            if f == 'would_block':
                steps.append(['arm', 0, 'would_block', r.choice([1, 1, 2, 3])])
            else:
                steps.append(['arm', 0, 'short', r.choice([1, 1, 2, 3, 7])])
    return steps


# ---------------------------------------------------------------------------
# result helpers

def skip_result(reason):
    return {'status': 'skip', 'reason': reason, 'counters': {}, 'nontrivial': False,
            'digest': '', 'sites': [], 'events': 0}


def _sites(cons):
    out = []
    if cons is None:
        return out
    for chain, line in cons.sites:
        out.append('%s@%s' % ('<'.join(chain[:6]), line))
    return out


def count_run(ctr, cons, st, conf, wl):
    def inc(k, v=1):
        ctr[k] = ctr.get(k, 0) + v
    inc('kind.%s' % conf['kind'])
    if conf.get('prewrap'):
        inc('kind.pipe.prewrapped')
    inc('codec.%s' % wl.codec_name.split(':')[0])
    if wl.w.get('variant'):
        inc('codec.ber-variant-forms')
    if wl.w.get('scale'):
        inc('probe.scale_shape')
    if wl.w.get('style'):
        inc('probe.class_style_types')
    inc('spec.%s' % ('with' if wl.use_spec else 'without'))
    if conf.get('threshold') is not None:
        inc('knob.threshold.%s' % conf['threshold'])
    if st is not None:
        for k, v in st.fault_fired.items():
            inc('fault.%s' % k, v)
        inc('reads', st.reads)
    if cons is not None:
        inc('polls', cons.polls)
        if cons.cache_drops:
            inc('probe.cache_drop_observed', cons.cache_drops)
    inc('stream_bytes', len(wl.stream))
    inc('objects_in_streams', len(wl.encodings))


def ok_result(trace, ctr, cons, nontrivial):
    return {'status': 'ok', 'counters': ctr, 'nontrivial': nontrivial,
            'digest': P.digest(trace), 'sites': _sites(cons), 'events': len(trace)}


def violation_result(v, sig, trace, ctr, cons, st, conf, wl):
    if wl is not None:
        count_run(ctr, cons, st, conf, wl)
    detail = dict(v.detail)
    detail['trace_tail'] = trace[-12:]
    from simkit import streams
    detail['cache_drops'] = streams.DROP_EVENTS['drops']
    detail['cache_drops_inside_definite_frame'] = streams.DROP_EVENTS['inside_definite']
    if wl is not None:
        detail['stream_hex'] = wl.stream.hex()[:600]
        detail['bounds'] = wl.bounds
    return {'status': 'violation', 'invariant': v.invariant, 'detail': detail, 'sig': sig,
            'counters': ctr, 'nontrivial': True, 'digest': P.digest(trace), 'sites': _sites(cons),
            'events': len(trace)}


def merge_result(agg, res):
    for k, v in res.get('counters', {}).items():
        agg['counters'][k] = agg['counters'].get(k, 0) + v
    agg['nontrivial'] = agg['nontrivial'] or res['nontrivial']
    agg['sites'] = sorted(set(agg['sites']) | set(res['sites']))
    agg['events'] += res['events']
    agg['digest'] = P.digest([agg['digest'], res['digest']])


_SCAN_CACHE = {}


def probe_cut(ctr, wl, delivered):
    """Reach probe: structural label of the position at which the data ended when
    the decoder was suspended."""
    key = id(wl)
    ent = _SCAN_CACHE.get(key)
    if ent is None or ent[0] is not wl:
        labels = {}
        base = 0
        for e in wl.encodings:
            try:
                n = tlv.scan(e)
                for p, lab in tlv.boundaries(n):
                    prev = labels.get(base + p)
                    if prev is None or _PRIO[lab] > _PRIO[prev]:
                        labels[base + p] = lab
            except tlv.ScanError:
                pass
            base += len(e)
        _SCAN_CACHE.clear()
        _SCAN_CACHE[key] = ent = (wl, labels)
    lab = ent[1].get(delivered, 'in-content')
    k = 'probe.suspended.%s' % lab
    ctr[k] = ctr.get(k, 0) + 1


_PRIO = {'in-eoo': 9, 'in-long-tag': 8, 'in-long-length': 8, 'after-tag': 7,
         'after-length': 6, 'before-eoo': 5, 'tlv-start': 4, 'tlv-end': 3}


# ---------------------------------------------------------------------------
# minimisation of stream-world plans

def stream_shrink_candidates(plan):
    """Smaller plans, most aggressive first.  Pure function of the plan."""
    w = plan['workload']
    steps = plan.get('steps', [])
    if plan.get('partitions'):
        if plan.get('only_mask') is None:
            for mask in range(1 << 10):
                c = copy.deepcopy(plan)
                c['only_mask'] = mask
                yield c
        return
    # 0. a sweep collapses to the failing split (the caller fills sweep_k through detail; try all small k)
    if plan.get('sweep'):
        for k in range(1, 400):
            c = copy.deepcopy(plan)
            c.pop('sweep')
            c['steps'] = [['deliver', 0, k], ['poll', 0], ['poll', 0], ['drain']]
            yield c
        return
    # 1. drop whole values
    if len(w['values']) > 1:
        for i in range(len(w['values'])):
            c = copy.deepcopy(plan)
            del c['workload']['values'][i]
            yield c
    # 2. drop step ranges (halves, quarters, singles), never the final drain
    body = steps[:-1] if steps and steps[-1][0] == 'drain' else steps
    tail = steps[len(body):]
    n = len(body)
    size = n // 2
    while size >= 1:
        for lo in range(0, n, size):
            c = copy.deepcopy(plan)
            c['steps'] = body[:lo] + body[lo + size:] + tail
            yield c
        size //= 2
    # 3. merge adjacent delivers
    for i in range(len(body) - 1):
        if body[i][0] == 'deliver' and body[i + 1][0] == 'deliver':
            c = copy.deepcopy(plan)
            c['steps'] = body[:i] + [['deliver', body[i][1], body[i][2] + body[i + 1][2]]] + body[i + 2:] + tail
            yield c
    # 4. shrink integers in steps
    for i, s in enumerate(body):
        if s[0] == 'deliver' and s[2] > 1:
            for v in (1, s[2] // 2, s[2] - 1):
                if 1 <= v < s[2]:
                    c = copy.deepcopy(plan)
                    c['steps'][i][2] = v
                    yield c
        if s[0] == 'arm' and s[3] > 1:
            c = copy.deepcopy(plan)
            c['steps'][i][3] = 1
            yield c
    # 5. simpler configuration
    conf = plan.get('config', {})
    if conf.get('prewrap'):
        c = copy.deepcopy(plan)
        c['config']['prewrap'] = False
        yield c
    if conf.get('threshold') not in (None, 8192):
        c = copy.deepcopy(plan)
        c['config']['threshold'] = 8192
        yield c
    if w.get('variant'):
        c = copy.deepcopy(plan)
        del c['workload']['variant']
        yield c
        for j in range(len(w['variant'])):
            if len(w['variant']) > 1:
                c = copy.deepcopy(plan)
                del c['workload']['variant'][j]
                yield c
    if w['codec'] != 'ber':
        c = copy.deepcopy(plan)
        c['workload']['codec'] = 'ber'
        c['workload']['decoder'] = 'ber'
        yield c
    # 6. smaller values / schemas
    for nd, nvs in shrink_desc_values(w['desc'], w['values']):
        c = copy.deepcopy(plan)
        c['workload']['desc'] = nd
        c['workload']['values'] = nvs
        c['workload']['open_types'] = U.has_open(nd)
        yield c


def shrink_desc_values(desc, values):
    """Yield (desc', values') pairs that are structurally smaller."""
    k = desc['k']
    # replace the whole thing by a child (sub-schema) when every value has that child
    if k in ('SEQ', 'SET'):
        for f in desc['fields']:
            if f.get('open'):
                continue
            if all(f['n'] in v for v in values):
                yield f['d'], [v[f['n']] for v in values]
        # drop one field
        for i, f in enumerate(desc['fields']):
            if f.get('open') or any(g.get('open') and g['open']['gov'] == f['n'] for g in desc['fields']):
                continue
            nd = copy.deepcopy(desc)
            del nd['fields'][i]
            nvs = []
            for v in values:
                v2 = dict(v)
                v2.pop(f['n'], None)
                nvs.append(v2)
            yield nd, nvs
        # drop open type pair
        for i, f in enumerate(desc['fields']):
            if f.get('open'):
                nd = copy.deepcopy(desc)
                nd['fields'] = [g for g in nd['fields'] if g['n'] not in (f['n'], f['open']['gov'])]
                nvs = []
                for v in values:
                    v2 = dict(v)
                    v2.pop(f['n'], None)
                    v2.pop(f['open']['gov'], None)
                    nvs.append(v2)
                yield nd, nvs
        # drop optional values
        for f in desc['fields']:
            if f['opt'] != 'R' and any(f['n'] in v for v in values):
                nvs = []
                for v in values:
                    v2 = dict(v)
                    v2.pop(f['n'], None)
                    nvs.append(v2)
                yield desc, nvs
        # recurse into fields
        for i, f in enumerate(desc['fields']):
            if f.get('open') or f['opt'] == 'D':
                continue
            present = [v for v in values if f['n'] in v]
            if not present or len(present) != len(values):
                continue
            for sd, svs in shrink_desc_values(f['d'], [v[f['n']] for v in values]):
                nd = copy.deepcopy(desc)
                nd['fields'][i]['d'] = sd
                nvs = []
                for v, sv in zip(values, svs):
                    v2 = dict(v)
                    v2[f['n']] = sv
                    nvs.append(v2)
                yield nd, nvs
    elif k in ('SEQOF', 'SETOF'):
        if all(len(v) >= 1 for v in values):
            yield desc['of'], [v[0] for v in values]
        if any(len(v) > 1 for v in values):
            yield desc, [v[:1] for v in values]
            yield desc, [v[1:] for v in values]
        if any(len(v) > 0 for v in values):
            yield desc, [[] for v in values]
        if all(len(v) == 1 for v in values):
            for sd, svs in shrink_desc_values(desc['of'], [v[0] for v in values]):
                nd = copy.deepcopy(desc)
                nd['of'] = sd
                yield nd, [[sv] for sv in svs]
    elif k == 'CHOICE':
        names = set(v[0] for v in values)
        if len(names) == 1:
            name = values[0][0]
            a = dict((n, d) for n, d in desc['alts'])[name]
            yield a, [v[1] for v in values]
            if len(desc['alts']) > 1:
                nd = copy.deepcopy(desc)
                nd['alts'] = [[n, d] for n, d in nd['alts'] if n == name]
                yield nd, values
    elif k in ('OCTETSTRING', 'ANY') and k != 'ANY':
        if any(len(v) > 2 for v in values):
            yield desc, [v[:2] for v in values]
    elif k in U.CHARS:
        if any(len(v) > 1 for v in values):
            yield desc, [v[:1] for v in values]
    elif k == 'BITSTRING':
        if any(len(v) > 1 for v in values):
            yield desc, [v[:1] for v in values]
    # drop tags
    if desc.get('tags'):
        nd = copy.deepcopy(desc)
        nd['tags'] = nd['tags'][:-1]
        yield nd, values
