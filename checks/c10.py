"""C10 -- whatever a decoder accepts is a well-formed, re-encodable value of the type.

Same fault model as C08 (stored-byte corruption of valid encodings, encodings of
values of a neighbouring type, seeded arrival schedules), restricted to
schema-guided decoding, with the universe extended by value ranges, sizes (also on
SEQUENCE OF/SET OF) and permitted alphabets.  The oracle is applied only when the
decoder RETURNED a value: "after an injected storage fault an operation may fail,
but it must never return wrong data".
"""
import copy

from simkit import budget, corrupt, plan as P, streams, tlv, universe as U, world as W
from checks import common, c08

ID = 'C10'
LEVEL = 'exploration'
TIERS = {"quick": 60000, "thorough": 3000000}
BUDGET = {'quick': 150, 'thorough': 1500}
RULE = ('seeded plans: constrained universe descriptor T + value; input b = valid encoding of T | encoding of a value of a neighbouring type | '
        '1-3 stored-byte corruptions of either; decoder {ber,cer,der} guided by T, one-shot or streaming under a seeded arrival schedule. '
        'evaluations = decoder invocations; non-trivial: the decoder returned a value for an input that is not the unmodified valid '
        'encoding (so the oracle judged an accepted damaged/foreign input), or for a constrained type; distinct = distinct plan digests among those')
ASSUMPTIONS = [
    'well-typedness is evaluated from the descriptor\'s plain data (kinds, tag stacks, ranges, sizes, alphabets), never from pyasn1 constraint objects',
    'open types are excluded (their decoded form depends on flags, C18)',
    'fixpoint oracle: decode(encode(result)) with the same codec family and guiding type yields the same abstract value',
    'REAL values are compared as normalised (mantissa, base, exponent); base-10 values below 1e-290 in magnitude only by sign (float subnormals)',
]
REAL = ['pyasn1.codec.{ber,cer,der}.decoder', 'pyasn1.codec.{ber,der}.encoder', 'pyasn1.type.* (constraint checks inside clone/set)']
STUB = ['stored-byte corruption injector', 'arrival schedule', 'independent well-typedness evaluator over descriptors']


def gen_plan(r, index, tier):
    w, cfg = common.gen_stream_workload(r, max_values=1, small=r.random() < 0.7, constraints=True, untyped_of=r.random() < 0.5)
    if U.has_open(w['desc']):
        cfg2 = U.GenCfg(max_depth=2, allow_open=False, allow_constraints=True, prims=cfg.prims)
        w['desc'] = U.gen_desc(r, cfg2)
        w['values'] = [U.gen_value(r, w['desc'], U.ValCfg(small=True))]
        w['open_types'] = False
    w['use_spec'] = True
    pl = {'check': ID, 'workload': w, 'decoder': r.choice(['own', 'own', 'ber', 'cer', 'der'])}
    src = r.choice(['own', 'own', 'neighbour'])
    pl['source'] = src
    if src == 'neighbour':
        # an encoding of a value of a structurally close type: same shape, different constraints/values
        pl['neighbour'] = _neighbour(r, w['desc'])
        if r.random() < 0.6:
            # the own value with some constrained leaves pushed just (or far) outside their constraints
            pl['neighbour'] = _strip_con(w['desc'])
            # exactly one constrained leaf is pushed outside (several at once would mask each other)
            n_leaves = _count_con(w['desc'], w['values'][0])
            target = [r.randrange(n_leaves) if n_leaves else -1]
            info = []
            pl['neighbour_value'] = _violate(r, w['desc'], copy.deepcopy(w['values'][0]), target, info)
            if info and r.random() < 0.5:
                # the same out-of-range value also in every UNCONSTRAINED leaf of that kind (harmless there):
                # whatever the decoder remembers about a value seen earlier must not vouch for the later one
                pl['neighbour_value'] = _echo(w['desc'], pl['neighbour_value'], info[0][0], info[0][1])
        else:
            pl['neighbour_value'] = U.gen_value(r, pl['neighbour'], U.ValCfg(small=True))
    total, points = common.stream_shape(w)
    if r.random() < 0.6 and total:
        try:
            nodes = corrupt.nodes_of(W.Workload(w).stream)
        except W.Skip:
            nodes = None
        pl['corrupt'] = corrupt.gen_ops(r, b'\0' * total, nodes, max_ops=2)
    if r.random() < 0.7:
        pl['mode'] = 'oneshot'
    else:
        pl['mode'] = 'stream'
        kind = r.choice(['file', 'pipe'])
        pl['config'] = {'kind': kind, 'threshold': 8192 if kind == 'pipe' else None, 'prewrap': False}
        steps = W.gen_schedule(r, (total or 8) + 8, None, max_steps=r.choice([6, 20]),
                               faults=[f for f in ('would_block', 'short') if r.random() < 0.5])
        steps.append(['drain'])
        pl['steps'] = steps
    return pl


def _neighbour(r, desc):
    """Same structure with the constraints dropped or widened, and sizes of the OF types freed:
    its values encode to inputs that T's decoder must either reject or accept as values of T."""
    d = copy.deepcopy(desc)

    def walk(x):
        if 'con' in x and r.random() < 0.8:
            del x['con']
        for c in U.children(x):
            walk(c)
    walk(d)
    return d


def _strip_con(desc):
    d = copy.deepcopy(desc)

    def walk(x):
        x.pop('con', None)
        for c in U.children(x):
            walk(c)
    walk(d)
    return d


def _count_con(desc, v):
    k = desc['k']
    n = 1 if desc.get('con') else 0
    if k in ('SEQ', 'SET'):
        for f in desc['fields']:
            if f['n'] in v and not f.get('open'):
                n += _count_con(f['d'], v[f['n']])
    elif k in ('SEQOF', 'SETOF'):
        for x in v:
            n += _count_con(desc['of'], x)
    elif k == 'CHOICE':
        n += _count_con(dict((n_, d_) for n_, d_ in desc['alts'])[v[0]], v[1])
    return n


def _echo(desc, v, kind, x):
    k = desc['k']
    if k == kind and k in U.PRIMS and not desc.get('con') and not desc.get('named'):
        return x
    if k in ('SEQ', 'SET'):
        out = dict(v)
        for f in desc['fields']:
            if f['n'] in out and not f.get('open'):
                out[f['n']] = _echo(f['d'], out[f['n']], kind, x)
        return out
    if k in ('SEQOF', 'SETOF'):
        return [_echo(desc['of'], y, kind, x) for y in v]
    if k == 'CHOICE':
        a = dict((n_, d_) for n_, d_ in desc['alts'])[v[0]]
        return [v[0], _echo(a, v[1], kind, x)]
    return v


def _violate(r, desc, v, target, info=None):
    """Push the target-th constrained node of value v (of desc) outside its constraint."""
    k = desc['k']
    con = desc.get('con') or {}
    hit = False
    if con:
        hit = target[0] == 0
        target[0] -= 1
    if hit and info is not None and k in U.PRIMS:
        new = _violate(r, desc, v, [0], None)
        info.append((k, new))
        return new
    if k == 'INTEGER' and 'except' in con and hit and r.random() < 0.7:
        (a, b), v1 = con['except']
        return r.choice([a, b, v1, v1])          # excluded by one of the operands only
    if k == 'INTEGER' and 'union' in con and hit:
        (a1, b1), (a2, b2) = con['union'][0], con['union'][-1]
        return r.choice([b1 + 1, a2 - 1, a1 - 1, b2 + 1, b2 + 2 ** 40])      # in the gap or just outside
    if k == 'INTEGER' and 'refine_values' in con and hit and r.random() < 0.6:
        # inside the inherited range, outside the refinement
        lo, hi = U.gen_bounds(con['range'])
        inside = [x for x in (lo + 1, hi - 1, (lo + hi) // 2 + 1, lo + 2) if lo <= x <= hi and x not in con['refine_values']]
        if inside:
            return r.choice(inside)
    if k == 'INTEGER' and 'range' in con and hit:
        lo, hi = con['range']
        if hi == 'MAX':
            return r.choice([lo - 1, lo - 1, lo - 129, lo - 70000, -2 ** 63])       # only the finite end can be violated
        if lo == 'MIN':
            return r.choice([hi + 1, hi + 1, hi + 2 ** 40])
        return r.choice([lo - 1, hi + 1, lo - 129, lo - 70000, hi + 2 ** 40, -2 ** 63])
    if k in ('OCTETSTRING',) and 'size' in con and hit:
        lo, hi = con['size']
        n = max(0, lo - 1) if hi == 'MAX' else r.choice([max(0, lo - 1), hi + 1, hi + 40])
        if isinstance(v, str) and r.random() < 0.5:
            cur = bytes.fromhex(v)
            return (cur + bytes(max(0, n - len(cur))))[:n].hex() if r.random() < 0.5 else (bytes(max(0, n - len(cur))) + cur)[-n or len(cur) + 1:].hex()
        return bytes(r.randrange(256) for _ in range(n)).hex()
    if k in U.CHARS and 'alpha' in con and hit and (r.random() < 0.6 or 'size' not in con):
        # one character outside the permitted alphabet, at the end, at the start or in the middle
        outside = [c for c in U.ALPHABETS[k] + '\n\r \x00' if c not in con['alpha'] and
                   (ord(c) < 128 or k in ('UTF8', 'BMP', 'UNIVERSAL'))] or ['\n']
        ch = r.choice(outside + ['\n', '\n'])
        text = v if isinstance(v, str) else ''
        lo, hi = con.get('size', [0, None])
        hi = None if hi == 'MAX' else hi
        if not text or (hi is not None and len(text) < hi and r.random() < 0.3):
            pos = len(text)
            return text + ch
        pos = r.choice([len(text) - 1, len(text) - 1, 0, len(text) // 2])
        return text[:pos] + ch + text[pos + 1:]
    if k in U.CHARS and 'size' in con and hit:
        lo, hi = con['size']
        n = max(0, lo - 1) if hi == 'MAX' else r.choice([max(0, lo - 1), hi + 1, hi + 40])
        return ''.join(r.choice(U.ALPHABETS[k]) for _ in range(n))
    if k == 'BITSTRING' and 'size' in con and hit:
        lo, hi = con['size']
        n = max(0, lo - 1) if hi == 'MAX' else r.choice([max(0, lo - 1), hi + 1, hi + 9])
        if isinstance(v, str) and r.random() < 0.5:
            # the closest foreign values: the same number with another length (leading zero bits added or removed)
            if n > len(v):
                return '0' * (n - len(v)) + v
            if v[:len(v) - n].strip('0') == '':
                return v[len(v) - n:]
        return ''.join(r.choice('01') for _ in range(n))
    if k in ('SEQ', 'SET'):
        out = dict(v)
        for f in desc['fields']:
            if f['n'] in out and not f.get('open'):
                out[f['n']] = _violate(r, f['d'], out[f['n']], target, info)
        return out
    if k in ('SEQOF', 'SETOF'):
        items = list(v)
        if 'size' in con and hit:
            lo, hi = con['size']
            n = max(0, lo - 1) if hi == 'MAX' else r.choice([max(0, lo - 1), hi + 1, hi + 3])
            while len(items) < n:
                items.append(U.gen_value(r, desc['of'], U.ValCfg(small=True)))
            items = items[:n]
            return items
        return [_violate(r, desc['of'], x, target, info) for x in items]
    if k == 'CHOICE':
        a = dict((n_, d_) for n_, d_ in desc['alts'])[v[0]]
        return [v[0], _violate(r, a, v[1], target, info)]
    return v


def _accepted_value_problem(wl, decname, dec, result, kw):
    """The three oracles of the property for one returned value.  "The library's own encoder"
    is the encoder of the decoder's own family: whatever the DER decoder accepts, the DER
    encoder must accept, and so on."""
    problem = U.conforms(result, wl.desc, wl.schema)
    if problem:
        return 'not-a-value-of-the-type', problem
    enc = U.codec(decname)[0]
    try:
        e = enc.encode(result)
    except Exception as ex:
        return 'encoder-rejects-accepted-value', '%s encoder: %s: %s' % (decname, type(ex).__name__, str(ex)[:100])
    try:
        back, rest = dec.decode(e, asn1Spec=wl.schema, **kw)
    except Exception as ex:
        return 'reencoding-not-decodable', '%s: %s: %s' % (decname, type(ex).__name__, str(ex)[:100])
    if rest or U.absval_canon(back) != U.absval_canon(result):
        drift = not rest and U.absval_canon_coarse(back) == U.absval_canon_coarse(result)
        return 'reencoding-decodes-to-other-value', '%s: %s%s' % (decname, e.hex()[:80],
                                                                 ' [only REAL digits beyond the 12th differ]' if drift else '')
    return None, None


def execute(plan):
    ctr = {}
    trace = []
    try:
        wl = W.Workload(plan['workload'])
    except W.Skip as s:
        return common.skip_result(s.reason)
    if plan['source'] == 'neighbour':
        try:
            nsch = U.build_schema(plan['neighbour'])
            nval = U.build_value(nsch, plan['neighbour'], plan['neighbour_value'])
            b = wl.enc_mod.encode(nval, **wl.enc_opts)
        except Exception as e:
            return common.skip_result('neighbour:%s' % type(e).__name__)
    else:
        b = wl.stream
    pristine = (plan['source'] == 'own' and not plan.get('corrupt'))
    if plan.get('corrupt'):
        b = corrupt.apply(b, plan['corrupt'])
    if tlv.max_depth(b) > c08.MAX_DEPTH:
        return common.skip_result('too-deep')
    decname = plan['decoder']
    if decname == 'own':
        decname = plan['workload']['decoder']
    dec = U.decoder_module(decname)
    kw = {}
    ctr['decoder.%s' % decname] = 1
    ctr['source.%s' % plan['source']] = 1
    ctr['mode.%s' % plan['mode']] = 1
    constrained = _has_con(wl.desc)
    if constrained:
        ctr['probe.constrained_type'] = 1
    results = []
    try:
        if plan['mode'] == 'oneshot':
            trace.append(['decode', decname, len(b)])
            try:
                v, rest = dec.decode(b, asn1Spec=wl.schema, **kw)
                results.append(v)
            except Exception as e:
                trace.append(['rejected', type(e).__name__])
        else:
            conf = plan['config']
            streams.set_drop_threshold(conf.get('threshold'))
            st = W.open_stream(conf['kind'], b, trace)
            cons = W.Consumer(dec, st, wl.schema, kw, trace=trace)
            done = False
            for step in plan['steps']:
                if done:
                    break
                if step[0] == 'poll' or step[0] == 'drain':
                    if step[0] == 'drain':
                        st.deliver_all()
                        st.disarm()
                        st.close_stream()
                    for _ in range(1 if step[0] == 'poll' else len(b) // 2 + 4):
                        kind, payload, starved = cons.poll()
                        if kind == W.OBJ:
                            results.append(payload)
                        elif kind in (W.STOP, W.ERR, W.NONE, W.OTHER):
                            done = True
                            break
                        elif step[0] == 'drain' and kind == W.UNDERRUN:
                            pass
                else:
                    W.apply_step(step, st)
        for v in results:
            inv, why = _accepted_value_problem(wl, decname, dec, v, kw)
            if inv:
                raise W.Violation(inv, why=why, input_hex=b.hex()[:300], mode=plan['mode'], pristine=pristine,
                                  exc_cls=_sig_part(inv, why), result_has_time=_contains_time(v),
                                  result_has_constructed_string_tag=_contains_constructed_string(v))
    except W.Violation as viol:
        sig = [viol.invariant, viol.detail.get('exc_cls'), decname]
        return common.violation_result(viol, sig, trace, ctr, None, None, {'kind': 'bytes'}, wl)
    finally:
        streams.set_drop_threshold(None)
    if results:
        ctr['accepted'] = len(results)
        if not pristine:
            ctr['probe.accepted_damaged_or_foreign_input'] = 1
    nontrivial = bool(results) and (not pristine or constrained)
    res = common.ok_result(trace, ctr, None, nontrivial)
    return res


def _contains_time(obj, depth=0):
    """Does the accepted value hold a GeneralizedTime/UTCTime anywhere (also where the type declares none: a
    component-less SET/SEQUENCE takes whatever arrives)?  Used only to recognise the open finding F15."""
    useful, univ = U.p.useful, U.p.univ
    if depth > 12:
        return False
    if isinstance(obj, (useful.GeneralizedTime, useful.UTCTime)):
        return True
    if isinstance(obj, univ.Choice):
        try:
            return _contains_time(obj.getComponent(), depth + 1)
        except Exception:
            return False
    if isinstance(obj, (univ.Sequence, univ.Set, univ.SequenceOf, univ.SetOf)):
        try:
            n = len(obj.componentType) if isinstance(obj, (univ.Sequence, univ.Set)) and len(obj.componentType) else len(obj)
        except Exception:
            return False
        for i in range(n):
            try:
                c = obj.getComponentByPosition(i, default=None, instantiate=False)
            except Exception:
                c = None
            if c is not None and _contains_time(c, depth + 1):
                return True
    return False


def _contains_constructed_string(obj, depth=0):
    """Does the accepted value hold a string-typed object whose own tagSet says 'constructed' (the identifier octet
    of the constructed form it was decoded from without a type)?  Used only to recognise the open finding F35."""
    univ = U.p.univ
    if depth > 12:
        return False
    if isinstance(obj, (univ.OctetString, univ.BitString)):
        try:
            return any(t.tagFormat == U.p.tag.tagFormatConstructed for t in obj.tagSet.superTags[:1])
        except Exception:
            return False
    if isinstance(obj, univ.Choice):
        try:
            return _contains_constructed_string(obj.getComponent(), depth + 1)
        except Exception:
            return False
    if isinstance(obj, (univ.Sequence, univ.Set, univ.SequenceOf, univ.SetOf)):
        try:
            n = len(obj.componentType) if isinstance(obj, (univ.Sequence, univ.Set)) and len(obj.componentType) else len(obj)
        except Exception:
            return False
        for i in range(n):
            try:
                c = obj.getComponentByPosition(i, default=None, instantiate=False)
            except Exception:
                c = None
            if c is not None and _contains_constructed_string(c, depth + 1):
                return True
    return False


def _sig_part(inv, why):
    if inv == 'not-a-value-of-the-type':
        return _kind_of(why)
    if inv == 'encoder-rejects-accepted-value':
        return why.split(':')[1].strip()
    return why.split(':')[0].strip()


def _kind_of(why):
    for key in ('mandatory component missing', 'elements outside SIZE', 'outside the permitted alphabet', 'size', 'outside',
                'is declared', 'tags', 'alternatives held', 'not a value', 'hole'):
        if key in why:
            return key
    return 'other'


def _has_con(desc):
    if desc.get('con'):
        return True
    return any(_has_con(c) for c in U.children(desc))


def shrink_candidates(plan, detail=None):
    if plan['mode'] == 'stream':
        c = copy.deepcopy(plan)
        c['mode'] = 'oneshot'
        c.pop('steps', None)
        c.pop('config', None)
        yield c
    if plan.get('corrupt'):
        for i in range(len(plan['corrupt'])):
            c = copy.deepcopy(plan)
            del c['corrupt'][i]
            yield c
    if plan['decoder'] != 'ber':
        c = copy.deepcopy(plan)
        c['decoder'] = 'ber'
        yield c
    w = plan['workload']
    if w['codec'] != 'ber':
        c = copy.deepcopy(plan)
        c['workload']['codec'] = 'ber'
        c['workload']['decoder'] = 'ber'
        yield c
    if plan['source'] == 'own':
        for nd, nvs in common.shrink_desc_values(w['desc'], w['values']):
            c = copy.deepcopy(plan)
            c['workload']['desc'] = nd
            c['workload']['values'] = nvs
            yield c
