#!/bin/bash
# Re-runs the quick tier of every registered check against /repo (VERIF_SEED=0) so that the committed
# evidence files come from the committed machinery, then validates MANIFEST.json and every evidence file.
cd "$(dirname "$0")/.."
unset VERIF_RUNS VERIF_REPO VERIF_WORKERS VERIF_BUDGET_S
rc=0
for c in $(python3 -c "import json; print(' '.join(x['property_id'] for x in json.load(open('MANIFEST.json'))['checks']))"); do
  out=$(VERIF_SEED=0 VERIF_TIER=quick ./check $c 2>&1); r=$?
  echo "$c rc=$r $(echo "$out" | grep '^runs=' | cut -c1-120)"
  [ $r -ne 0 ] && rc=1
done
python3-vt - <<'PY' || rc=1
import json, jsonschema, sys
m = json.load(open('/verif/MANIFEST.json'))
jsonschema.validate(m, json.load(open('/root/.vp/MANIFEST.schema.json')))
es = json.load(open('/root/.vp/EVIDENCE.schema.json'))
for c in m['checks']:
    jsonschema.validate(json.load(open(c['evidence_file'])), es)
props = [json.loads(l)['id'] for l in open('/verif/properties.jsonl')]
claimed = {c['property_id'] for c in m['checks']}
na = {x['property_id'] for x in m['not_applicable']}
assert claimed | na == set(props) and not (claimed & na), (claimed, na)
print('manifest and %d evidence files valid; %d claimed + %d not applicable = %d properties' % (len(m['checks']), len(claimed), len(na), len(props)))
PY
exit $rc
