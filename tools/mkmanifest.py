#!/usr/bin/env python3
"""Regenerate MANIFEST.json from the table below (single source of truth)."""
import json
import os

HERE = os.path.dirname(os.path.dirname(os.path.abspath(__file__)))

NA = {
 'C01': 'BER round trip decode(encode(v)) is a pure function of (type, value, encoder mode); no schedule, fault, interleaving or history enters it, so deterministic simulation has nothing to decide',
 'C02': 'DER/CER round trip across decoders is a pure function of (type, value, codec pair)',
 'C03': 'encoder output vs an independent X.690 reference is a pure function of the input and needs a reference codec: differential testing, not simulation',
 'C09': 'every valid BER form decodes to the value: quantifies over encodings from a reference encoder; pure input space',
 'C13': 'tags on the wire are a pure function of (base type, tag stack)',
 'C14': 'constraint semantics is pure evaluation of expression trees on candidate values',
 'C15': 'DER/CER strictness: accept/reject is a pure function of (bytes, schema, codec)',
 'C16': 'schemaless decoding fidelity is a pure function of the encoding',
 'C17': 'native codec round trip is a pure function of (type, value)',
 'C18': 'open type resolution and round trip is a pure function of (type map, value, codec, flags)',
 'C20': 'time conversion is a pure function of (datetime, offset); pyasn1 never reads a clock',
}

PENDING = {k: 'applicable to this technique (see DESIGN.md section 3) but its check is not built yet in this revision; not claimed until it is quiet and sensitive'
           for k in ()}

CHECKS = {
 'C05': dict(
    engine='stream-world', category='exploration', design_ref='DESIGN.md section 3 (C05)',
    text='Seeded search over arrival schedules (chunking at structural cut points, empty polls, would-block and short reads, '
         'late or simultaneous end-of-stream) of streams of 1-4 encodings (the output of the library encoder and equivalent BER variant '
         'forms) on three stream doubles, plus exhaustive parts: every single split point of sampled streams, every one of the '
         '2^(n-1) partitions of short streams, and for very short streams every assignment of one of six behaviours (join, split, '
         'split + empty poll, would-block read, short read, short read + empty poll) to every byte boundary; idle periods of up to 2500 '
         'empty polls; a plain BytesIO used as a message queue with the same decoder iterated again after every append; invariants I1-I6 '
         'checked at every poll against the same decoder on the trivial '
         'schedule. Sampling, not proof: a clean batch is evidence that no schedule in the sampled space changes the output.',
    note='Trusts: the trivial-schedule behaviour of the same decoder as reference (differential oracle); the stream doubles '
         'implement the non-blocking read contract documented in readFromStream; the framing scanner for preconditions. '
         'Open known finding F6 (cache renumbering on non-seekable streams) is classified narrowly and reported as KNOWN-FINDING.',
    technique='deterministic simulation: seeded schedule and read-fault injection on the stream seam of the resumable decoder, invariant checking per poll, delta-debugged replay'),
 'C06': dict(
    engine='stream-world', category='fault_enumeration', design_ref='DESIGN.md section 3 (C06)',
    text='For each sampled valid encoding, the producer-crash fault (stream ends after byte k) is enumerated at EVERY cut point k, '
         'in four presentations (bytes, closed seekable stream, closed non-seekable stream, streaming open-then-closed under a seeded '
         'arrival schedule with read faults while the prefix arrives and around the close), plus prefixes of virtual elements of 16 MiB .. 1 TiB (a few octets or tens of MiB of the content present, on the file and on the non-blocking pipe double); the oracle is absolute: SubstrateUnderrunError (one-shot), underrun while open, EndOfStreamError after close.',
    note='Trusts: validity precondition (well-framed per the independent scanner and accepted by one-shot decode with empty remainder); '
         'the error hierarchy in pyasn1.error. Cut positions are exhaustive per item; items are sampled.',
    technique='deterministic simulation: exhaustive enumeration of the crash point within each seeded workload item, seeded arrival schedules for the surviving prefix'),
 'C07': dict(
    engine='stream-world', category='exploration', design_ref='DESIGN.md section 3 (C07)',
    text='Seeded search: one-shot decode(e||t) for five kinds of tail (empty, end-of-octets, zeros, another encoding, garbage) with a '
         'byte-exact remainder oracle, and streams of 1-4 encodings under seeded schedules with the stream position asserted after '
         'every yielded object against boundaries known from construction (tell() on seekable doubles, hand-off read on the non-seekable one); '
         'plain elements of 8-16 MiB and scale shapes (wide records, long collections, many alternatives) must decode at all.',
    note='Trusts: the library encoder, plus value-preserving framing edits of its output, as the source of valid encodings; one-shot decode(e) as '
         'the reference value. Open known findings F2 (stray end-of-octets after a definite explicit tag, test-pinned) and F6 are classified narrowly.',
    technique='deterministic simulation: seeded schedule/fault injection on the stream seam with position accounting from construction; byte-exact remainder oracle'),
 'C08': dict(
    engine='stream-world', category='exploration', design_ref='DESIGN.md section 3 (C08)',
    text='Seeded stored-byte corruption (bit flip, structural octet, insert, delete, TLV duplication, length and identifier rewrite, '
         'truncation; 1-3 faults) and grammar-aware damage (edits of the TLV tree with enclosing lengths recomputed: empty/replace/retag/duplicate/'
         'drop/swap a node, change the length form, fragment a primitive, add a zero-length child, wrap, bloat a primitive to thousands of octets, '
         'give it a tag number of thousands of bits) of valid encodings, and seeded '
         'structural-octet strings, through {BER,CER,DER} x {one-shot, streaming under a '
         'seeded arrival schedule with drain} x {own, neighbouring, no guiding type}; plus exhaustive sweeps: all strings of length <= 3 '
         'over 14 structural octets, all contents of length <= 3 over 24 content octets for 15 universal types, all lists of at most two '
         'fragments (47 shapes) for three constructed string types in both length forms, REAL texts of length <= 3/4 over 17 characters plus '
         'long digit strings, very long INTEGER contents, length fields within 18 of 2^15, 2^16, 2^31, 2^32, 2^63, 2^64 behind nine identifiers under six guides. Oracle: value object + bytes remainder, or a PyAsn1Error; deterministic termination bound on stream reads '
         'and on control-flow events (sys.monitoring), so a hang is a replayable verdict.',
    note='Trusts: the depth bound is applied with an upper-bound estimate from the framing scanner; the step budget constants (x20 head-room '
         'over measured valid inputs). Exhaustive only for |b| <= 3 over the reduced alphabet; otherwise sampled.',
    technique='deterministic simulation: seeded stored-byte corruption faults plus arrival schedules, absolute oracle on outcome class, deterministic step budget'),
 'C11': dict(
    engine='stream-world', category='exploration', design_ref='DESIGN.md section 3 (C11)',
    text='Part A: the same bytes (valid streams, corrupted ones, wide/deep/over-threshold containers from an independent TLV writer) through 14 '
         'substrate kinds (BytesIO, OctetString, Any, OS file buffered and unbuffered, gzip, bz2, lzma, zip member, BufferedReader over a raw pipe, non-seekable double raw and '
         'pre-wrapped, seekable double) with the wrapper drop threshold (4/16/64/8192 and the shipped value with >8 KiB '
         'elements) and the buffer size of files and buffered readers (16/17/64/4096/default) as per-run knobs, plus one decoder per message '
         'on the same input object (which must stay usable), and, in a fifth of the plans, debug logging switched on for the whole plan with the '
         'library code under a deterministic step budget (a hang is an outcome); outcome must equal the outcome on bytes. Part B: seeded operation histories (read/peek/seek-back/set-mark/tell with short '
         'and would-block raw reads) on the real CachingStreamWrapper against a reference model, checked after every operation.',
    note='Trusts: outcome on bytes as the reference; wrapper positions are compared modulo the renumbering at mark points pinned by upstream '
         'testMarkedPositionResets (that renumbering is what breaks the decoder on non-seekable streams: open known finding F6, classified narrowly). '
         'MemoryError on absurd lengths is not compared (machine-dependent).',
    technique='deterministic simulation: substrate-kind differential with a buffer-size knob; operation-history refinement of the seek-back wrapper against an executable model'),
 'C12': dict(
    engine='task-world', category='exploration', design_ref='DESIGN.md section 3 (C12)',
    text='2-5 codec tasks (encode, decode, streaming decode with its own arrival sub-plan, print, native codec; now and then 1-3 streaming '
         'decodes of a 20-95 levels deep element parked mid-way, or one-shot calls on input nested 600-1500 levels, beyond the recursion limit) over SHARED schema/value objects, over 0-2 colliding neighbour types (same tag '
         'numbers under the other tagging mode / class / base type; the parent classes of character types with an encoding override), with '
         'decode tasks on input that is not a value of the type, a caller-supplied openTypes mapping as shared configuration, consumer '
         'crashes (a suspended decoder abandoned and restarted) and the module-level codec singletons, under seeded schedules '
         '(for sampled task pairs every single pre-emption point): back-to-back histories with repeats, step-by-step interleaving of '
         'suspended decoder generators, real threads pre-empted at pyasn1 line events by a baton-passing scheduler (one runnable thread, the '
         'plan decides every switch), each optionally with debug logging on. Oracles: every task outcome equals the same task alone on fresh '
         'objects after an injected process restart (every enumerated process-global container of pyasn1 - module level, codec singletons, '
         'class level, function defaults - reset to its pristine content; additionally in a forked child for a seeded 2% of runs); semantic snapshots of the shared schema and inputs never '
         'move; mutating one result moves neither the schema nor another result; module-level state digest and debug scope stack are restored; interpreter-wide configuration (recursion limit, int-to-text limit, '
         'switch interval, warning filters) is what it was in the pristine process.',
    note='Trusts: pre-emption granularity is a Python line inside pyasn1 frames (races inside one bytecode are out of reach and, under the GIL, '
         'not the library\'s concern); snapshot compares public observables modulo lazy instantiation of DEFAULT/OPTIONAL slots. Sampling of schedules, not enumeration.',
    technique='deterministic simulation: seeded interleaving of suspended generators and baton-passed real threads (sys.settrace), differential against isolated execution plus state snapshots'),
 'C19': dict(
    engine='history-world', category='exploration', design_ref='DESIGN.md section 3 (C19) and appendix B',
    text='Seeded operation histories (5-30 operations: mutators, readers, ill-formed operations as injected faults, in-place mutation of nested '
         'members (filled, cleared and reset through reads) incl. half-filled nested records, extend with lists, tuples, iterators and generators, sort under total, coarse and constant keys, slices with negative and omitted bounds, '
         'elements given as objects of narrower subtypes, tag-addressed reads through nested CHOICEs, SIZE-constrained collections that may '
         'start from a decoded object, collections of up to 1030 members, clone with both objects kept under check) over SEQUENCE OF/SET OF (with and without component type), SEQUENCE/SET with declared '
         'fields, CHOICE and valueless scalars; after every step the object is compared with a Python list/dict reference model (content, length, '
         'value-versus-schema status, DER against a freshly built object), readers must leave every observable unchanged, ill-formed operations '
         'must raise a lookup/library error and change nothing, a CHOICE never holds two alternatives.',
    note='Trusts: the operation semantics fixed from the docstrings in univ.py (appendix B); observation uses non-instantiating accessors only; '
         'an absent DEFAULT component equals the default value; the encoding of a non-value is not asserted. No concurrency is involved: the '
         'schedule is the operation history and the faults are ill-formed operations. Open findings F9a (far index accepted, test-pinned), '
         'F9g (slice assignment is not list-style), F9f (== on constructed values) are classified by (invariant, operation kind).',
    technique='deterministic simulation, sequential end of the family: seeded operation/fault histories checked step by step against an executable reference model, delta-debugged replay'),
 'C04': dict(
    engine='replica-world', category='exploration', design_ref='DESIGN.md section 3 (C04)',
    text='2-5 replicas are driven to the same abstract value by different seeded construction histories (permuted assignment/insertion order and '
         'addressing mode, DEFAULT components explicit (also through setDefaultComponents) or left out, native Python arguments, lazy in-place '
         'construction through instantiating reads, every scalar slot overwritten (decoy first), scalars as objects of narrower subtypes, equal '
         'sub-values as one shared object, '
         'decoding of each BER form the library can produce incl. REAL bases 2/8/16, decoding of equivalent BER variants - long-form and '
         'indefinite lengths, constructed strings, other TRUE octets -, CER/DER decode, clone of another route) with read-only uses (DER/CER/BER '
         'encode, print, iterate, compare, len, in, subscript reads) interleaved after and, for the in-place route, between construction steps; the DER '
         'and the CER bytes of all replicas must be identical, a read-only use must leave bytes and abstract value unchanged, and '
         'der(decode(der(v))) == der(v) (same for CER). For 69 catalogue values the canonical bytes are also written out by hand from X.690: '
         'decoding those and encoding the result must reproduce them and every replica must have produced them. '
         'Convergence check of replicated state with the encodings as the compared state.',
    note='Trusts: the plan\'s plain-data value as the abstract value (SET OF = multiset, absent DEFAULT = default). A decoded route that does not '
         'reach the target value (a round-trip defect, C01/C02/C09 territory) is counted as a probe and left out, so decoder defects are not '
         'misattributed. No reference encoder: only history-independence is decided, not X.690 conformance.',
    technique='deterministic simulation, replica convergence: seeded construction histories per replica, invariant = identical canonical bytes, delta-debugged replay'),
 'C10': dict(
    engine='stream-world', category='exploration', design_ref='DESIGN.md section 3 (C10)',
    text='Same fault model as C08 (1-3 stored-byte corruptions of valid encodings, encodings of values of a neighbouring type with constraints '
         'dropped or with exactly one constrained leaf pushed outside - optionally echoed into the unconstrained leaves of that kind -, grammar-aware '
         'tree damage, seeded arrival schedules), restricted to schema-guided decoding over a universe extended with value ranges, sizes (also on '
         'SEQUENCE OF/SET OF, also through the sizeSpec keyword, also on collections declared without an element type), permitted alphabets, exclusions, unions, open-ended bounds and twice-refined types. Whenever a decoder RETURNS a value: it must conform to an independent evaluation of the '
         'descriptor (kinds, tag stacks, mandatory components, every scalar and size predicate, one CHOICE alternative), the encoder of the same '
         'family must accept it, and decoding that re-encoding must give the same abstract value.',
    note='Trusts: the well-typedness evaluator works from the descriptor\'s plain data, never from pyasn1 constraint objects; open types are '
         'excluded; REALs are compared as normalised triples (base 10 to 15 significant digits). Open findings F15 F16 F19 F2b F22 F23 (CER/DER '
         'encoder-side and ANY-validation defects of unclaimed properties that surface through the re-encoding oracle) are classified by shape '
         'plus a differential re-run under BER.',
    technique='deterministic simulation: seeded stored-byte corruption faults and arrival schedules; "may fail, must never return wrong data" oracle against an independent type evaluator plus re-encode fixpoint'),
}


def main():
    checks = []
    for cid in sorted(CHECKS):
        c = CHECKS[cid]
        checks.append({
            'property_id': cid,
            'quick_cmd': './check %s --tier quick' % cid,
            'thorough_cmd': './check %s --tier thorough' % cid,
            'evidence_file': '/verif/evidence/%s.json' % cid,
            'replay_cmd_template': './check %s --replay {path}' % cid,
            'engine': c['engine'],
            'level_claimed': {'category': c['category'], 'text': c['text'], 'design_ref': c['design_ref']},
            'level_note': c['note'],
            'technique': c['technique'],
        })
    engines = {}
    for cid, c in CHECKS.items():
        engines.setdefault(c['engine'], []).append(cid)
    paths = {'stream-world': 'simkit/world.py', 'history-world': 'simkit/history.py',
             'replica-world': 'simkit/history.py', 'task-world': 'simkit/tasks.py'}
    kinds = {
        'stream-world': 'discrete-event simulation of producer / stream double / resumable-decoder consumer; seeded plans, PRNG-free execution',
        'history-world': 'operation-history simulation against an executable reference model, step-by-step refinement',
        'replica-world': 'N replicas driven to the same abstract value by different seeded histories; convergence of DER/CER',
        'task-world': 'seeded interleaving of suspended decoder generators and baton-passing real threads pre-empted at line granularity (sys.settrace)',
    }
    m = {
        'version': 1,
        'setup_cmd': '/venv/bin/python -c "import sys; sys.path.insert(0, \'/verif\'); import simkit.boot, simkit.runner; print(\'simkit ok\')"',
        'hooks': {
            'guard': 'PYASN1_VERIF',
            'enable': 'no hooks were needed: every seam (caller-supplied stream objects, the public CachingStreamWrapper class, '
                      'debug.setLogger, sys.settrace, the io module reference inside pyasn1.codec.streaming) is reachable from outside; '
                      'checks put ${VERIF_REPO:-/repo} first on sys.path and import the working tree directly (PYASN1_VERIF=1 is exported but read by nothing in /repo)',
            'baseline_off_cmd': 'cd /repo && /venv/bin/python -m pytest -q -p no:cacheprovider tests',
            'source_commits': [],
            'add_only': True,
        },
        'engines': [{'name': k, 'path': paths[k], 'serves_properties': sorted(v), 'kind_free_text': kinds[k]}
                    for k, v in sorted(engines.items())],
        'checks': checks,
        'notes': 'Technique family: deterministic simulation with fault injection. See DESIGN.md; known_findings.json lists open and fixed findings; '
                 'fix: commits in /repo repair F1 F3 F5 F10 F11 F13. Exit 2 = harness problem (never a verdict).',
        'not_applicable': [{'property_id': k, 'reason': v}
                           for k, v in sorted(list(NA.items()) + list(PENDING.items())) if k not in CHECKS],
    }
    with open(os.path.join(HERE, 'MANIFEST.json'), 'w') as f:
        json.dump(m, f, indent=1)
    print('MANIFEST.json written: %d checks, %d not applicable' % (len(checks), len(m['not_applicable'])))


if __name__ == '__main__':
    main()
