#!/bin/bash
# usage: tools/confirm_seeded.sh <seeded-id> <agent-worktree> <property> [more checks...]
# Copies the sub-agent's patch/demo/meta into /verif/seeded/<id>/, then confirms everything in a FRESH
# scratch worktree: patch applies, upstream suite passes with it, demo FAILs with it and PASSes without.
set -u
id=$1; src=$2; prop=$3; shift 3
dst=/verif/seeded/$id
mkdir -p $dst
cp $src/SEEDED/patch.diff $dst/patch.diff
cp $src/SEEDED/demo.py $dst/demo.py
cp $src/SEEDED/meta.json $dst/agent_meta.json
wt=$(mktemp -d /tmp/verif-confirm-XXXX); rmdir $wt
git -C /repo worktree add --detach $wt HEAD >/dev/null 2>&1
cd $wt
demo_clean=$(PYTHONPATH=$wt PYTHONDONTWRITEBYTECODE=1 timeout 300 /venv/bin/python $dst/demo.py >/dev/null 2>&1; echo $?)
git apply --whitespace=nowarn $dst/patch.diff; applied=$?
suite=$(PYTHONPATH=$wt PYTHONDONTWRITEBYTECODE=1 /venv/bin/python -m pytest -q -p no:cacheprovider tests 2>&1 | tail -1)
demo_mut=$(PYTHONPATH=$wt PYTHONDONTWRITEBYTECODE=1 timeout 300 /venv/bin/python $dst/demo.py >/dev/null 2>&1; echo $?)
cd /verif
git -C /repo worktree remove --force $wt; git -C /repo worktree prune
python3 - "$dst" "$prop" "$applied" "$suite" "$demo_clean" "$demo_mut" "$@" <<'PY'
import json,sys
dst,prop,applied,suite,dc,dm=sys.argv[1:7]; checks=[prop]+sys.argv[7:]
a=json.load(open(dst+'/agent_meta.json'))
meta={'property':prop,'checks':checks,'summary':a.get('summary'),'needs':a.get('needs'),'files':a.get('files'),
      'confirmed':{'patch_applies':applied=='0','upstream_suite_with_change':suite,'demo_exit_unchanged_tree':int(dc),'demo_exit_with_change':int(dm)},
      'what_i_ran':'tools/confirm_seeded.sh: fresh scratch worktree of /repo HEAD outside /repo and /verif; git apply patch.diff; pytest tests; demo.py before and after; worktree removed'}
json.dump(meta,open(dst+'/meta.json','w'),indent=1)
print(json.dumps(meta['confirmed']))
PY
