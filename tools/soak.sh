#!/bin/bash
# usage: tools/soak.sh FIRST_SEED LAST_SEED [CHECK ...]   -- quick tier of each check for many VERIF_SEED values.
# Prints one line per (check, seed); keeps the replay files of anything that is not quiet under $SOAK_OUT.
cd "$(dirname "$0")/.."
first=$1; last=$2; shift 2
checks=${@:-$(ls checks | grep -o '^c[0-9][0-9]' | tr a-z A-Z | sort -u)}
out=${SOAK_OUT:-/root/soak}
mkdir -p "$out"
for seed in $(seq $first $last); do
  for c in $checks; do
    log=$(VERIF_SEED=$seed VERIF_TIER=quick ./check $c 2>&1)
    rc=$?
    line=$(echo "$log" | grep '^runs=' | cut -c1-110)
    echo "seed=$seed $c rc=$rc $line"
    if [ $rc -ne 0 ]; then
      d="$out/$c-seed$seed"; mkdir -p "$d"; echo "$log" > "$d/log.txt"
      for f in $(echo "$log" | grep -o 'replay=[^ ]*' | cut -d= -f2); do cp "$f" "$d/" 2>/dev/null; done
    fi
  done
done
