#!/bin/bash
# runs the thorough tier of every check once (VERIF_SEED from the environment), one line per check
cd "$(dirname "$0")/.."
out=${SOAK_OUT:-/root/soak}
mkdir -p "$out"
for c in ${@:-C04 C05 C06 C07 C08 C10 C11 C12 C19}; do
  start=$(date +%s)
  log=$(VERIF_TIER=thorough ./check $c 2>&1); rc=$?
  echo "thorough $c rc=$rc $(( $(date +%s) - start ))s $(echo "$log" | grep '^runs=' | cut -c1-140)"
  if [ $rc -ne 0 ]; then d="$out/thorough-$c-seed${VERIF_SEED:-0}"; mkdir -p "$d"; echo "$log" > "$d/log.txt"; for f in $(echo "$log" | grep -o 'replay=[^ ]*' | cut -d= -f2); do cp "$f" "$d/" 2>/dev/null; done; fi
done
