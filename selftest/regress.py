#!/venv/bin/python
"""Replays every committed pre-fix replay (regress/*.json) on the current tree: each
must no longer violate its property.  A 'fixed' finding that returns shows up here
(and in the checks themselves, which suppress nothing for fixed entries)."""
import glob
import os
import subprocess
import sys

HERE = os.path.dirname(os.path.dirname(os.path.abspath(__file__)))
bad = 0
for f in sorted(glob.glob(os.path.join(HERE, 'regress', '*.json'))):
    cid = os.path.basename(f).split('-')[0]
    out = subprocess.run([os.path.join(HERE, 'check'), cid, '--replay', f], stdout=subprocess.PIPE,
                         stderr=subprocess.STDOUT, universal_newlines=True).stdout
    ok = 'VIOLATION' not in out and 'HARNESS' not in out
    print('%-60s %s' % (os.path.basename(f), 'fixed' if ok else 'STILL FAILS'))
    bad += 0 if ok else 1
sys.exit(1 if bad else 0)
