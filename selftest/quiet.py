#!/venv/bin/python
"""False-alarm self-test: behaviour-preserving changes must leave every check quiet.

For every benign/*/patch.diff (refactorings written by sub-agents that were told to preserve
behaviour exactly, each reviewed by hand): scratch worktree of /repo outside /repo and /verif,
apply, upstream suite, then EVERY registered check at the quick tier with VERIF_REPO=<scratch>.
Expected: exit 0 and no VIOLATION line from any of them.  A VIOLATION here is either a false
alarm of the machinery (to be corrected) or a real behaviour change the refactoring introduced by
accident (then the patch is not benign: it is recorded as such in its meta.json and moves to
seeded/).

usage: selftest/quiet.py [--runs N] [patch ...]
"""
import glob
import json
import os
import shutil
import subprocess
import sys
import tempfile

HERE = os.path.dirname(os.path.dirname(os.path.abspath(__file__)))
REPO = os.environ.get('VERIF_REPO', '/repo')


def sh(cmd, **kw):
    return subprocess.run(cmd, stdout=subprocess.PIPE, stderr=subprocess.STDOUT, universal_newlines=True, **kw)


def checks():
    m = json.load(open(os.path.join(HERE, 'MANIFEST.json')))
    return [c['property_id'] for c in m['checks']]


def run_one(path, runs, only):
    name = os.path.basename(os.path.dirname(path))
    wt = tempfile.mkdtemp(prefix='verif-benign-')
    os.rmdir(wt)
    res = {'patch': os.path.relpath(path, HERE), 'name': name}
    try:
        out = sh(['git', '-C', REPO, 'worktree', 'add', '--detach', wt, 'HEAD'])
        if out.returncode:
            res['error'] = 'worktree: ' + out.stdout[-300:]
            return res
        out = sh(['git', '-C', wt, 'apply', '--whitespace=nowarn', os.path.abspath(path)])
        if out.returncode:
            res['error'] = 'apply: ' + out.stdout[-300:]
            return res
        t = sh(['/venv/bin/python', '-m', 'pytest', '-q', '-x', '-p', 'no:cacheprovider', 'tests'], cwd=wt,
               env=dict(os.environ, PYTHONPATH=wt, PYTHONDONTWRITEBYTECODE='1'))
        res['upstream_suite'] = 'pass' if t.returncode == 0 else 'FAIL: ' + t.stdout.strip().splitlines()[-1][:120]
        res['checks'] = {}
        for cid in only or checks():
            env = dict(os.environ, VERIF_REPO=wt, VERIF_TIER='quick', VERIF_EVIDENCE_DIR=os.path.join(wt, '.evidence'))
            if runs:
                env['VERIF_RUNS'] = str(runs)
            c = sh([os.path.join(HERE, 'check'), cid], env=env)
            viol = [l for l in c.stdout.splitlines() if l.startswith('VIOLATION')]
            entry = {'exit': c.returncode, 'violations': len(viol)}
            if viol or c.returncode:
                entry['lines'] = [l[:300] for l in c.stdout.splitlines() if l.startswith(('violation:', 'HARNESS', 'signature'))][:6]
                keep = os.path.join(HERE, 'replays', 'benign-%s-%s' % (name, cid))
                os.makedirs(keep, exist_ok=True)
                for v in viol:
                    rp = v.split('replay=')[1].strip()
                    if os.path.exists(rp):
                        shutil.copy(rp, keep)
                entry['replays_kept_in'] = os.path.relpath(keep, HERE)
            res['checks'][cid] = entry
        res['quiet'] = all(e['exit'] == 0 and not e['violations'] for e in res['checks'].values())
    finally:
        sh(['git', '-C', REPO, 'worktree', 'remove', '--force', wt])
        shutil.rmtree(wt, True)
        sh(['git', '-C', REPO, 'worktree', 'prune'])
    return res


def main():
    args = sys.argv[1:]
    runs = None
    only = None
    if '--runs' in args:
        runs = int(args[args.index('--runs') + 1])
        del args[args.index('--runs'):args.index('--runs') + 2]
    if '--checks' in args:
        only = args[args.index('--checks') + 1].split(',')
        del args[args.index('--checks'):args.index('--checks') + 2]
    paths = args or sorted(glob.glob(os.path.join(HERE, 'benign', '*', 'patch.diff')))
    if not args:
        # a refactoring whose base was rewritten by a later repair is kept for the record only
        def _live(p_):
            m_ = os.path.join(os.path.dirname(p_), 'meta.json')
            return not (os.path.exists(m_) and json.load(open(m_)).get('superseded'))
        paths = [p_ for p_ in paths if _live(p_)]
    results = []
    for p in paths:
        r = run_one(p, runs, only)
        results.append(r)
        print(json.dumps(r, sort_keys=True))
        sys.stdout.flush()
    loud = [r['name'] for r in results if not r.get('quiet')]
    print('SUMMARY benign=%d quiet=%d loud=%s' % (len(results), len(results) - len(loud), loud))
    if not args:
        with open(os.path.join(HERE, 'selftest', 'quiet_last.json'), 'w') as f:
            json.dump(results, f, indent=1, sort_keys=True)
    return 0 if not loud else 1


if __name__ == '__main__':
    sys.exit(main())
