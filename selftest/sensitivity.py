#!/venv/bin/python
"""Sensitivity self-test (DESIGN.md 1.14).

For every patch in selftest/mutants/*.patch and seeded/*/patch.diff: make a scratch
git worktree of /repo outside /repo and /verif, apply the patch, run the upstream
suite (a mutant only counts if it still passes), run the named checks against the
scratch tree (VERIF_REPO), require a VIOLATION whose replay reproduces, and remove the
worktree.  The first line(s) of a patch may carry '# checks: C05 C06'.

usage: selftest/sensitivity.py [--runs N] [patch ...]
"""
import glob
import json
import os
import re
import shutil
import subprocess
import sys
import tempfile

HERE = os.path.dirname(os.path.dirname(os.path.abspath(__file__)))
REPO = os.environ.get('VERIF_REPO', '/repo')


def sh(cmd, **kw):
    return subprocess.run(cmd, stdout=subprocess.PIPE, stderr=subprocess.STDOUT, universal_newlines=True, **kw)


def checks_for(path):
    meta = os.path.join(os.path.dirname(path), 'meta.json')
    if os.path.exists(meta):
        m = json.load(open(meta))
        if m.get('checks'):
            return m['checks']
        if m.get('property'):
            return [m['property']]
    for line in open(path):
        m = re.match(r'#\s*checks:\s*(.*)', line)
        if m:
            return m.group(1).split()
    return []


def run_one(path, runs):
    name = os.path.basename(os.path.dirname(path)) if path.endswith('patch.diff') else os.path.basename(path)[:-6]
    wt = tempfile.mkdtemp(prefix='verif-mutant-')
    os.rmdir(wt)
    res = {'mutant': name, 'patch': os.path.relpath(path, HERE)}
    try:
        out = sh(['git', '-C', REPO, 'worktree', 'add', '--detach', wt, 'HEAD'])
        if out.returncode:
            res['error'] = 'worktree: ' + out.stdout[-300:]
            return res
        out = sh(['git', '-C', wt, 'apply', '--whitespace=nowarn', os.path.abspath(path)])
        if out.returncode:
            res['error'] = 'apply: ' + out.stdout[-300:]
            return res
        t = sh(['/venv/bin/python', '-m', 'pytest', '-q', '-x', '-p', 'no:cacheprovider', 'tests'], cwd=wt,
               env=dict(os.environ, PYTHONPATH=wt, PYTHONDONTWRITEBYTECODE='1'))
        res['upstream_suite'] = 'pass' if t.returncode == 0 else 'FAIL: ' + t.stdout.strip().splitlines()[-1][:120]
        res['checks'] = {}
        for cid in checks_for(path):
            env = dict(os.environ, VERIF_REPO=wt, VERIF_TIER='quick')
            if runs:
                env['VERIF_RUNS'] = str(runs)
            c = sh([os.path.join(HERE, 'check'), cid], env=env)
            viol = [l for l in c.stdout.splitlines() if l.startswith('VIOLATION')]
            entry = {'exit': c.returncode, 'violations': len(viol)}
            if viol:
                rp = viol[0].split('replay=')[1].strip()
                r = sh([os.path.join(HERE, 'check'), cid, '--replay', rp], env=env)
                entry['replay_reproduces'] = 'VIOLATION' in r.stdout
                r0 = sh([os.path.join(HERE, 'check'), cid, '--replay', rp], env=dict(os.environ, VERIF_REPO=REPO))
                entry['replay_clean_on_unchanged_tree'] = 'VIOLATION' not in r0.stdout
                first = [l for l in c.stdout.splitlines() if l.startswith('violation:')]
                entry['first'] = first[0][:200] if first else ''
            elif c.returncode not in (0, 1):
                entry['output_tail'] = c.stdout[-400:]
            res['checks'][cid] = entry
        res['detected'] = any(e.get('violations') for e in res['checks'].values())
    finally:
        sh(['git', '-C', REPO, 'worktree', 'remove', '--force', wt])
        shutil.rmtree(wt, True)
        sh(['git', '-C', REPO, 'worktree', 'prune'])
    return res


def main():
    args = sys.argv[1:]
    runs = None
    if '--runs' in args:
        runs = int(args[args.index('--runs') + 1])
        del args[args.index('--runs'):args.index('--runs') + 2]
    paths = args or sorted(glob.glob(os.path.join(HERE, 'selftest', 'mutants', '*.patch')) +
                           glob.glob(os.path.join(HERE, 'seeded', '*', 'patch.diff')))
    results = []
    for p in paths:
        meta = os.path.join(os.path.dirname(p), 'meta.json')
        if os.path.exists(meta) and json.load(open(meta)).get('superseded'):
            print(json.dumps({'mutant': os.path.basename(os.path.dirname(p)), 'superseded': True}))
            continue
        r = run_one(p, runs)
        results.append(r)
        print(json.dumps(r, sort_keys=True))
        sys.stdout.flush()
    missed = [r['mutant'] for r in results if not r.get('detected')]
    print('SUMMARY mutants=%d detected=%d missed=%s' % (len(results), len(results) - len(missed), missed))
    if not args:        # only a complete run is recorded
        out = os.environ.get('SENSITIVITY_OUT') or os.path.join(HERE, 'selftest', 'sensitivity_last.json')
        with open(out, 'w') as f:
            json.dump({'budget_s_per_check': os.environ.get('VERIF_BUDGET_S') or 'tier default',
                       'workers': os.environ.get('VERIF_WORKERS') or 'default',
                       'repo_head': sh(['git', '-C', REPO, 'log', '--format=%h', '-1']).stdout.strip(),
                       'results': results}, f, indent=1, sort_keys=True)
    return 0


if __name__ == '__main__':
    sys.exit(main())
