#!/venv/bin/python
"""Determinism self-test (DESIGN.md 1.13): every run's event-trace digest must be
identical across repetitions, worker counts and hash seeds, in fresh interpreters.

usage: selftest/determinism.py [N] [CHECK ...]
"""
import os
import subprocess
import sys

HERE = os.path.dirname(os.path.dirname(os.path.abspath(__file__)))


def digest(check, n, workers, hashseed, seed):
    env = dict(os.environ)
    env.update({'VERIF_WORKERS': str(workers), 'VERIF_HASHSEED': str(hashseed),
                'VERIF_SEED': str(seed)})
    env.pop('PYTHONHASHSEED', None)
    out = subprocess.run([os.path.join(HERE, 'check'), check, '--digest', str(n)],
                         env=env, stdout=subprocess.PIPE, stderr=subprocess.STDOUT,
                         universal_newlines=True, timeout=3000).stdout
    for line in out.splitlines():
        if line.startswith('DIGEST'):
            return line
    return 'FAILED: ' + out[-500:]


def main():
    args = sys.argv[1:]
    n = int(args[0]) if args and args[0].isdigit() else 200
    checks = [a for a in args if not a.isdigit()] or \
        [f[:-3].upper() for f in sorted(os.listdir(os.path.join(HERE, 'checks')))
         if f.startswith('c') and f[1:3].isdigit()]
    bad = 0
    for c in checks:
        for seed in (0, 7):
            ds = [digest(c, n, 16, 0, seed), digest(c, n, 16, 0, seed),
                  digest(c, n, 1, 0, seed), digest(c, n, 5, 12345, seed)]
            ok = len(set(ds)) == 1 and ds[0].startswith('DIGEST')
            print('%s seed=%d %s %s' % (c, seed, 'DETERMINISTIC' if ok else 'DIVERGES', ds[0] if ok else ds))
            bad += 0 if ok else 1
    return 1 if bad else 0


if __name__ == '__main__':
    sys.exit(main())
