"""Deterministic step budget for the code under test (DESIGN.md 1.8).

Counts control-flow events that every unbounded loop or recursion must produce
(backward/unconditional jumps and Python function entries) with sys.monitoring and
aborts the code under test with `Hang` (a BaseException, so `except Exception`
cannot swallow it) once a budget is exceeded.  The count is a pure function of the
executed code path, so a HANG verdict replays exactly; no clock is involved.
"""
import sys

TOOL = 3   # a free tool id (0 debugger, 1 coverage, 2 profiler, 5 optimizer)


class Hang(BaseException):
    pass


class StepBudget(object):
    def __init__(self, budget):
        self.budget = budget
        self.count = 0
        self.active = False

    def _tick(self, *args):
        self.count += 1
        if self.count > self.budget and self.active:
            self.active = False
            raise Hang('step budget %d exceeded' % self.budget)

    def __enter__(self):
        mon = sys.monitoring
        try:
            mon.use_tool_id(TOOL, 'verif-budget')
        except ValueError:
            mon.free_tool_id(TOOL)
            mon.use_tool_id(TOOL, 'verif-budget')
        ev = mon.events
        mon.register_callback(TOOL, ev.JUMP, self._tick)
        mon.register_callback(TOOL, ev.PY_START, self._tick)
        mon.set_events(TOOL, ev.JUMP | ev.PY_START)
        self.active = True
        return self

    def __exit__(self, *exc):
        mon = sys.monitoring
        self.active = False
        mon.set_events(TOOL, 0)
        mon.register_callback(TOOL, mon.events.JUMP, None)
        mon.register_callback(TOOL, mon.events.PY_START, None)
        mon.free_tool_id(TOOL)
        return False
