"""Seed derivation: one integer decides everything (DESIGN.md section 1.1)."""
import hashlib
import os
import random


def verif_seed():
    try:
        return int(os.environ.get('VERIF_SEED', '0'))
    except ValueError:
        return int(hashlib.sha256(os.environ['VERIF_SEED'].encode()).hexdigest()[:12], 16)


def run_seed(check, seed, index):
    h = hashlib.sha256(('%s|%d|%d' % (check, seed, index)).encode()).hexdigest()
    return int(h[:16], 16)


def rng_for(check, seed, index):
    return random.Random(run_seed(check, seed, index))


def sub_rng(parent_seed, label):
    h = hashlib.sha256(('%d|%s' % (parent_seed, label)).encode()).hexdigest()
    return random.Random(int(h[:16], 16))
