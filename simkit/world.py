"""Stream-world: workload preparation, consumers, schedules (DESIGN.md sections 2, 3).

Execution of a plan draws nothing from any PRNG and reads no clock.
"""
import io
import os
import sys
import traceback

from simkit import streams, tlv, universe as U


class Skip(Exception):
    """Workload item does not meet the check's precondition."""

    def __init__(self, reason):
        Exception.__init__(self, reason)
        self.reason = reason


class Violation(Exception):
    def __init__(self, invariant, **detail):
        Exception.__init__(self, invariant)
        self.invariant = invariant
        self.detail = detail


# ---------------------------------------------------------------------------
# exception sites

_PYASN1_DIR = [None]


def pyasn1_dir():
    if _PYASN1_DIR[0] is None:
        import pyasn1
        _PYASN1_DIR[0] = os.path.dirname(os.path.abspath(pyasn1.__file__)) + os.sep
    return _PYASN1_DIR[0]


def exc_site(exc):
    """Innermost pyasn1 function (qualname, no line number) of a traceback."""
    site = None
    tb = exc.__traceback__
    root = pyasn1_dir()
    while tb is not None:
        code = tb.tb_frame.f_code
        if os.path.abspath(code.co_filename).startswith(root):
            site = '%s:%s' % (os.path.basename(code.co_filename)[:-3],
                              getattr(code, 'co_qualname', code.co_name))
        tb = tb.tb_next
    return site


def frame_chain(limit=12):
    """Chain of active pyasn1 frames (qualnames), innermost first -- the decoder
    state at which a suspension happens."""
    root = pyasn1_dir()
    f = sys._getframe(1)
    out = []
    first_line = None
    while f is not None and len(out) < limit:
        code = f.f_code
        if code.co_filename.startswith(root):
            if first_line is None:
                first_line = f.f_lineno
            out.append(getattr(code, 'co_qualname', code.co_name))
        f = f.f_back
    return tuple(out), first_line


def describe_exc(exc):
    return {'cls': type(exc).__name__, 'msg': str(exc)[:160], 'site': exc_site(exc),
            'is_pyasn1': is_pyasn1_error(exc)}


def is_pyasn1_error(exc):
    from pyasn1 import error
    return isinstance(exc, error.PyAsn1Error)


# ---------------------------------------------------------------------------
# workload

class Workload(object):
    """Schema + values + encodings built from the plan's workload section."""

    def __init__(self, w):
        self.w = w
        self.desc = w['desc']
        self.codec_name = w['codec']
        self.enc_mod, self.dec_mod, self.enc_opts = U.codec(self.codec_name)
        if w.get('decoder'):
            self.dec_mod = U.decoder_module(w['decoder'])
        prev_style = U.STYLE[0]
        U.STYLE[0] = w.get('style')
        try:
            self.schema = U.build_schema(self.desc)
            if hasattr(self.schema, 'tagMap'):
                self.schema.tagMap
            problem = U.schema_problem(self.schema)
        except Exception as e:   # postponed schema errors: generator's fault, not the library's
            raise Skip('schema-build:%s' % type(e).__name__)
        finally:
            U.STYLE[0] = prev_style
        if problem:
            raise Skip('schema-ill-formed:%s' % problem.split(':')[0])
        self.values = []
        self.encodings = []
        for v in w['values']:
            try:
                val = U.build_value(self.schema, self.desc, v)
            except Exception as e:
                raise Skip('value-build:%s' % type(e).__name__)
            self.values.append(val)
            try:
                e_ = self.enc_mod.encode(val, **self.enc_opts)
            except RecursionError:
                raise Skip('encode:RecursionError')
            except Exception as e:
                raise Skip('encode:%s' % type(e).__name__)
            if w.get('variant'):
                # another valid BER form of the same value (long-form lengths, indefinite lengths,
                # constructed strings, other TRUE octets): the properties quantify over valid
                # encodings, not only over what the library's own encoder emits
                from simkit import corrupt
                e_ = corrupt.apply_variant(e_, w['variant'])
            self.encodings.append(e_)
        self.use_spec = bool(w.get('use_spec', True))
        self.dec_kw = {}
        if w.get('open_types') and self.use_spec:
            self.dec_kw['decodeOpenTypes'] = True
        self.stream = b''.join(self.encodings)
        self.bounds = []
        acc = 0
        for e in self.encodings:
            acc += len(e)
            self.bounds.append(acc)

    @property
    def spec(self):
        return self.schema if self.use_spec else None

    def require_well_framed(self):
        for e in self.encodings:
            if not tlv.well_framed(e):
                raise Skip('not-well-framed')

    def reference(self, data=None):
        """The trivial schedule: everything present in a plain BytesIO.  Returns the
        list of absvals; raises Skip if the code under test does not yield exactly
        one object per encoding there (that is C01/C09 territory, not ours)."""
        data = self.stream if data is None else data
        out = []
        try:
            for o in self.dec_mod.StreamingDecoder(io.BytesIO(data), asn1Spec=self.spec, **self.dec_kw):
                if not isinstance(o, U.p.base.Asn1Item):
                    # e.g. schemaless `30 00` yields None (F7): a defect of C08/C16, not of the schedule
                    raise Skip('reference-non-object')
                out.append(U.absval(o))
                if len(out) > len(self.encodings) + 2:
                    break
        except Skip:
            raise
        except Exception as e:
            raise Skip('reference:%s' % type(e).__name__)
        return out


# ---------------------------------------------------------------------------
# consumer

OBJ, UNDERRUN, NONE, STOP, ERR, OTHER = 'OBJ', 'UNDERRUN', 'NONE', 'STOP', 'ERR', 'OTHER'


class Consumer(object):
    """Iterates a real StreamingDecoder over a stream double, one next() per poll."""

    def __init__(self, dec_mod, stream, spec, dec_kw, cid=0, trace=None, prewrap=False,
                 raw=None, buffered=None):
        from pyasn1.codec import streaming
        self.cid = cid
        self.trace = trace if trace is not None else []
        self.stream = stream           # the double (for counters)
        self.substrate = stream
        self.wrapper = None
        if buffered:
            # the standard library's buffered reader between the decoder and the non-blocking double
            import io as _io
            self.substrate = _io.BufferedReader(streams.RawAdapter(stream), buffer_size=buffered)
        if prewrap:
            self.wrapper = streaming.CachingStreamWrapper(self.substrate)
            self.substrate = self.wrapper
        self.decoder = dec_mod.StreamingDecoder(self.substrate, asn1Spec=spec, **dec_kw)
        self.it = iter(self.decoder)
        self.polls = 0
        self.sites = set()
        self.last_exc = None
        self.cache_drops = 0
        self._cache_id = id(getattr(self.wrapper, '_cache', None)) if self.wrapper is not None else None
        stream.on_starve = self._on_starve

    def _on_starve(self, kind):
        chain, line = frame_chain()
        self.sites.add((chain, line))

    def poll(self):
        """Returns (kind, payload, starved_reads)."""
        from pyasn1 import error
        from pyasn1.type import base
        self.polls += 1
        self.stream.starved = 0
        try:
            x = next(self.it)
        except StopIteration:
            res = (STOP, None)
        except BaseException as e:   # noqa -- classify everything the code under test throws
            if isinstance(e, (KeyboardInterrupt, SystemExit, GeneratorExit)):
                raise
            self.last_exc = e
            res = (ERR, e)
        else:
            if isinstance(x, error.SubstrateUnderrunError):
                res = (UNDERRUN, x)
            elif x is None:
                res = (NONE, None)
            elif isinstance(x, base.Asn1Item):
                res = (OBJ, x)
            else:
                res = (OTHER, x)
        if self.wrapper is not None and id(getattr(self.wrapper, '_cache', None)) != self._cache_id:
            self._cache_id = id(getattr(self.wrapper, '_cache', None))     # a probe only; private attribute
            self.cache_drops += 1
        pos = self.position()
        self.trace.append(['poll', self.cid, res[0],
                           type(res[1]).__name__ if res[0] == ERR else None, pos])
        return res[0], res[1], self.stream.starved

    def position(self):
        try:
            if self.wrapper is not None:
                return None
            if hasattr(self.substrate, 'position'):
                return self.substrate.position() if self.substrate.kind != 'pipe' else None
        except Exception:
            return None
        return None


def open_stream(kind, content, trace, sid=0):
    return streams.make_stream(kind, content, sid, trace)


# ---------------------------------------------------------------------------
# schedules (generation side: uses the PRNG, produces plain step lists)

def structural_points(encodings):
    """Absolute offsets of structural boundaries (+-1) inside a concatenation."""
    pts = set()
    base = 0
    for e in encodings:
        try:
            n = tlv.scan(e)
            for p, _ in tlv.boundaries(n):
                for q in (p - 1, p, p + 1):
                    if 0 < base + q < base + len(e) + 1:
                        pts.add(base + q)
        except tlv.ScanError:
            pass
        base += len(e)
        pts.add(base)
    return sorted(pts)


def gen_schedule(r, total, points=None, max_steps=64, faults=('would_block', 'short'),
                 sid=0, cid=0, chunk_pool=(1, 1, 2, 3, 5, 20, 400), p_struct=0.5, idle=False):
    """Random deliver/poll/arm steps until all `total` bytes are delivered or the
    step budget is used.  No 'close' here; the caller decides end-of-stream timing."""
    steps = []
    d = 0
    points = [p for p in (points or []) if 0 < p <= total]
    w_deliver = r.choice([0.3, 0.45, 0.6])
    w_poll = r.choice([0.25, 0.4])
    w_fault = r.choice([0.0, 0.08, 0.15, 0.3]) if faults else 0.0
    norm = w_deliver + w_poll + w_fault
    while d < total and len(steps) < max_steps:
        a = r.random() * norm
        if a < w_deliver:
            if points and r.random() < p_struct:
                nxt = [p for p in points if p > d]
                tgt = r.choice(nxt[:6]) if nxt else total
                k = tgt - d
            else:
                k = r.randrange(1, max(2, min(total - d, r.choice(chunk_pool)) + 1))
            k = max(1, min(k, total - d))
            d += k
            steps.append(['deliver', sid, k])
        elif a < w_deliver + w_poll:
            steps.append(['poll', cid])
        else:
            f = r.choice(faults)
            if f == 'would_block':
                steps.append(['arm', sid, 'would_block', r.choice([1, 1, 2, 3])])
            else:
                steps.append(['arm', sid, 'short', r.choice([1, 1, 2, 3, 7])])
    if idle and steps and r.random() < 0.03:
        # a long idle period: the consumer keeps polling a stream that has nothing new, a thousand times
        # and more (a peer that is slow to answer), at a drawn point of the schedule
        steps.insert(r.randrange(len(steps) + 1), ['idle', cid, r.choice([300, 1100, 2500])])
    return steps


def apply_step(step, stream):
    """Producer-side steps; returns True if handled."""
    op = step[0]
    if op == 'deliver':
        stream.deliver(step[2])
        return True
    if op == 'close':
        stream.close_stream()
        return True
    if op == 'arm':
        if step[2] == 'would_block':
            for _ in range(step[3]):
                stream.arm('would_block', None)
        else:
            stream.arm('short', step[3])
        return True
    return False
