"""Tolerant BER *framing* scanner and a tiny TLV writer.

Knows identifier octets, length octets, nesting and end-of-octets; knows nothing
about value semantics.  Used for preconditions (is this exactly one well-framed
TLV?), for structural cut points, for reach probes and for finding signatures --
so none of those depend on the code under test.
"""


class ScanError(Exception):
    pass


class Node(object):
    __slots__ = ('start', 'tag_end', 'hdr_end', 'end', 'cls', 'constructed',
                 'number', 'length', 'children', 'depth', 'eoo_at')

    def to_json(self):
        return {'start': self.start, 'hdr_end': self.hdr_end, 'end': self.end,
                'cls': self.cls, 'c': self.constructed, 'n': self.number,
                'len': self.length,
                'children': [c.to_json() for c in self.children]}


def scan(b, pos=0, depth=0, max_depth=64, limit=None):
    """Parse one TLV starting at pos; returns Node.  Raises ScanError."""
    if limit is None:
        limit = len(b)
    if depth > max_depth:
        raise ScanError('too deep')
    n = Node()
    n.start = pos
    n.depth = depth
    n.children = []
    n.eoo_at = None
    if pos >= limit:
        raise ScanError('no identifier octet')
    first = b[pos]
    pos += 1
    n.cls = first >> 6
    n.constructed = bool(first & 0x20)
    num = first & 0x1f
    if num == 0x1f:
        num = 0
        while True:
            if pos >= limit:
                raise ScanError('truncated long tag')
            o = b[pos]
            pos += 1
            num = (num << 7) | (o & 0x7f)
            if not o & 0x80:
                break
    n.number = num
    n.tag_end = pos
    if pos >= limit:
        raise ScanError('no length octet')
    lo = b[pos]
    pos += 1
    if lo < 0x80:
        length = lo
    elif lo == 0x80:
        length = -1
    else:
        k = lo & 0x7f
        if pos + k > limit:
            raise ScanError('truncated length')
        length = int.from_bytes(b[pos:pos + k], 'big')
        pos += k
    n.length = length
    n.hdr_end = pos
    if length == -1:
        if not n.constructed:
            raise ScanError('indefinite length on primitive')
        while True:
            if pos + 2 <= limit and b[pos] == 0 and b[pos + 1] == 0:
                n.eoo_at = pos
                pos += 2
                break
            if pos >= limit:
                raise ScanError('missing end-of-octets')
            c = scan(b, pos, depth + 1, max_depth, limit)
            n.children.append(c)
            pos = c.end
        n.end = pos
    else:
        end = pos + length
        if end > limit:
            raise ScanError('content beyond input')
        if n.constructed:
            while pos < end:
                c = scan(b, pos, depth + 1, max_depth, end)
                n.children.append(c)
                pos = c.end
            if pos != end:
                raise ScanError('children overrun')
        n.end = end
    return n


def headers_tolerant(b, limit_nodes=5000):
    """Document-order list of (start, hdr_end, end_or_None, constructed, definite,
    open_definite_ancestors) for as much of b as can be framed; never raises.  Used on
    damaged or truncated input, where scan() gives up."""
    out = []
    stack = []      # (end or None for indefinite, definite?)
    pos = 0
    n = len(b)
    while pos < n and len(out) < limit_nodes:
        # close finished definite frames / indefinite frames at EOO
        while stack and stack[-1][0] is not None and pos >= stack[-1][0]:
            stack.pop()
        if stack and stack[-1][0] is None and b[pos:pos + 2] == b'\x00\x00':
            stack.pop()
            pos += 2
            continue
        start = pos
        first = b[pos]
        pos += 1
        if first & 0x1f == 0x1f:
            while pos < n and b[pos] & 0x80:
                pos += 1
            pos += 1
        if pos >= n:
            break
        lo = b[pos]
        pos += 1
        if lo < 0x80:
            length = lo
        elif lo == 0x80:
            length = -1
        else:
            k = lo & 0x7f
            if pos + k > n:
                break
            length = int.from_bytes(b[pos:pos + k], 'big')
            pos += k
        constructed = bool(first & 0x20)
        open_def = sum(1 for e, d in stack if d)
        end = None if length == -1 else pos + length
        out.append((start, pos, end, constructed, length != -1, open_def))
        if constructed:
            stack.append((end, length != -1))
        else:
            if length == -1:
                break
            pos = end
    return out


def well_framed(b):
    """True iff b is exactly one well-framed TLV."""
    try:
        n = scan(b)
    except (ScanError, RecursionError):
        return False
    return n.end == len(b)


def walk(n):
    yield n
    for c in n.children:
        for x in walk(c):
            yield x


def max_depth(b):
    """Nesting depth of a possibly damaged string, tolerant: best effort."""
    try:
        n = scan(b, max_depth=200)
    except (ScanError, RecursionError):
        return _depth_guess(b)
    return max(x.depth for x in walk(n)) + 1


def _depth_guess(b):
    # upper bound for input the scanner cannot frame: a nesting level needs a constructed-looking identifier
    # octet or an indefinite-length octet (the decoders descend into `80 80 80 ...` one level per pair)
    return sum(1 for o in b if o & 0x20) + sum(1 for o in b if o == 0x80)


def boundaries(n):
    """Structural positions inside a TLV, labelled."""
    out = []
    for x in walk(n):
        out.append((x.start, 'tlv-start'))
        if x.tag_end - x.start > 1:
            for p in range(x.start + 1, x.tag_end):
                out.append((p, 'in-long-tag'))
        out.append((x.tag_end, 'after-tag'))
        if x.hdr_end - x.tag_end > 1:
            for p in range(x.tag_end + 1, x.hdr_end):
                out.append((p, 'in-long-length'))
        out.append((x.hdr_end, 'after-length'))
        if x.eoo_at is not None:
            out.append((x.eoo_at, 'before-eoo'))
            out.append((x.eoo_at + 1, 'in-eoo'))
        out.append((x.end, 'tlv-end'))
    return out


def label_position(n, k):
    """Most specific structural label of byte offset k within TLV tree n."""
    best = 'in-content'
    prio = {'in-eoo': 9, 'in-long-tag': 8, 'in-long-length': 8, 'after-tag': 7,
            'after-length': 6, 'before-eoo': 5, 'tlv-start': 4, 'tlv-end': 3}
    bp = 0
    for p, lab in boundaries(n):
        if p == k and prio[lab] > bp:
            best, bp = lab, prio[lab]
    return best


# ---- writer -------------------------------------------------------------

def enc_len(n):
    if n < 0x80:
        return bytes([n])
    body = n.to_bytes((n.bit_length() + 7) // 8, 'big')
    return bytes([0x80 | len(body)]) + body


def enc_ident(cls, constructed, number):
    first = (cls << 6) | (0x20 if constructed else 0)
    if number < 31:
        return bytes([first | number])
    out = [number & 0x7f]
    number >>= 7
    while number:
        out.append(0x80 | (number & 0x7f))
        number >>= 7
    return bytes([first | 0x1f]) + bytes(reversed(out))


def tlv(cls, constructed, number, content):
    return enc_ident(cls, constructed, number) + enc_len(len(content)) + bytes(content)
