"""Deterministic stream doubles (DESIGN.md section 2).

None of these subclasses anything from pyasn1.  Each logs every call into a
shared trace list and keeps the counters the invariants need.

Contract implemented (the one ``readFromStream`` is written against, and
Python's non-blocking raw I/O contract): ``read(n)`` returns exactly n bytes,
or fewer (short read), or ``None`` (no data now), or ``b''`` (end of stream).
"""
import io


class StreamMisuse(Exception):
    """The code under test used the stream outside its contract (e.g. seek
    past the delivered data).  Deliberately NOT a PyAsn1Error."""


class _Core(object):
    kind = '?'

    def _init_core(self, content, sid, trace):
        self.s = bytes(content)
        self.d = 0              # bytes delivered so far
        self.closed_ = False    # end of stream signalled
        self.arms = []          # pending read faults
        self.sid = sid
        self.trace = trace if trace is not None else []
        self.reads = 0
        self.starved = 0        # reads that returned None / short / eof since last reset
        self.fault_fired = {}
        self.last_starved_frames = None
        self.on_starve = None

    # -- producer side ---------------------------------------------------
    def deliver(self, n):
        self.d = min(len(self.s), self.d + n)

    def deliver_all(self):
        self.d = len(self.s)

    def close_stream(self):
        self.closed_ = True

    def arm(self, what, arg):
        self.arms.append((what, arg))

    def disarm(self):
        self.arms = []

    # -- bookkeeping -----------------------------------------------------
    def _log(self, n, kind, ln):
        self.reads += 1
        self.trace.append(['read', self.sid, n, kind, ln])
        if kind in ('none', 'short', 'eof'):
            self.starved += 1
            if self.on_starve is not None:
                self.on_starve(kind)

    def _fire(self, name):
        self.fault_fired[name] = self.fault_fired.get(name, 0) + 1

    def _take(self, n, pos):
        """Common read logic; returns (data or None, kind)."""
        if n is None:
            n = -1
        if n == 0:
            return b'', 'zero'
        cap = None
        if self.arms:
            what, arg = self.arms.pop(0)
            if what == 'would_block':
                self._fire('would_block')
                return None, 'none'
            cap = max(1, int(arg))
        avail = self.d - pos
        if avail <= 0:
            if self.closed_:
                return b'', 'eof'
            return None, 'none'
        want = avail if n < 0 else min(n, avail)
        if cap is not None and cap < want:
            want = cap
            self._fire('short')
        data = self.s[pos:pos + want]
        kind = 'full' if (n < 0 or len(data) == n) else 'short'
        return data, kind


class SimFile(_Core):
    """Seekable, non-blocking, growing source that is *not* a BytesIO."""
    kind = 'file'

    def __init__(self, content, sid=0, trace=None):
        self._init_core(content, sid, trace)
        self.p = 0

    def seekable(self):
        return True

    def tell(self):
        return self.p

    def seek(self, n=0, whence=0):
        if whence == 0:
            p = n
        elif whence == 1:
            p = self.p + n
        else:
            p = self.d + n
        self.trace.append(['seek', self.sid, n, whence])
        if not 0 <= p <= self.d:
            raise StreamMisuse('seek to %d outside delivered data [0,%d]' % (p, self.d))
        self.p = p
        return p

    def read(self, n=-1):
        data, kind = self._take(n, self.p)
        if data:
            self.p += len(data)
        self._log(n, kind, -1 if data is None else len(data))
        return data

    def position(self):
        return self.p


class SimPipe(_Core):
    """Non-seekable source: bytes are consumed by reading."""
    kind = 'pipe'

    def __init__(self, content, sid=0, trace=None):
        self._init_core(content, sid, trace)
        self.p = 0

    def seekable(self):
        return False

    def read(self, n=-1):
        data, kind = self._take(n, self.p)
        if data:
            self.p += len(data)
        self._log(n, kind, -1 if data is None else len(data))
        return data

    def consumed(self):
        return self.p


class RawAdapter(io.RawIOBase):
    """The non-blocking pipe double as an io.RawIOBase, so that the standard library's BufferedReader can sit on
    top of it (what os.fdopen() gives for a non-blocking descriptor): would-block is None from readinto()."""

    def __init__(self, pipe):
        io.RawIOBase.__init__(self)
        self.pipe = pipe

    def readable(self):
        return True

    def seekable(self):
        return False

    def readinto(self, b):
        data = self.pipe.read(len(b))
        if data is None:
            return None
        b[:len(data)] = data
        return len(data)


class SimBytesIO(io.BytesIO):
    """A BytesIO subclass, the shape upstream's RestartableDecoderTestCase uses.

    pyasn1 decides end-of-stream for BytesIO instances by position == size, so a
    BytesIO cannot express "open, nothing yet": the honest double therefore holds
    the complete content from the start (``deliver`` is a no-op) and only injects
    would-block and short-read faults.
    """
    kind = 'bio'

    def __init__(self, content, sid=0, trace=None):
        io.BytesIO.__init__(self, bytes(content))
        self.core = _Core()
        self.core._init_core(content, sid, trace)
        self.core.d = len(content)
        self.core.closed_ = True

    # producer side: forwarded
    def deliver(self, n):
        pass

    def deliver_all(self):
        pass

    def close_stream(self):
        pass

    def arm(self, what, arg):
        self.core.arm(what, arg)

    def disarm(self):
        self.core.disarm()

    @property
    def s(self):
        return self.core.s

    @property
    def d(self):
        return self.core.d

    @property
    def closed_(self):
        return True

    @property
    def reads(self):
        return self.core.reads

    @property
    def starved(self):
        return self.core.starved

    @starved.setter
    def starved(self, v):
        self.core.starved = v

    @property
    def fault_fired(self):
        return self.core.fault_fired

    @property
    def trace(self):
        return self.core.trace

    @property
    def on_starve(self):
        return self.core.on_starve

    @on_starve.setter
    def on_starve(self, f):
        self.core.on_starve = f

    def read(self, n=-1):
        pos = io.BytesIO.tell(self)
        data, kind = self.core._take(n, pos)
        if data:
            got = io.BytesIO.read(self, len(data))
            assert got == data
        self.core._log(n, kind, -1 if data is None else len(data))
        return data

    def position(self):
        return io.BytesIO.tell(self)


DROP_EVENTS = {'drops': 0, 'inside_definite': 0}


def _definite_frame_active(frame):
    """Is a definite-length decoding frame of pyasn1 active up the stack?  Those are
    the frames that keep absolute stream positions across a mark (F6)."""
    f = frame
    n = 0
    while f is not None and n < 200:
        code = f.f_code
        name = code.co_name
        if name == 'valueDecoder' and 'decoder' in code.co_filename:
            return True
        if name == '__call__' and 'decoder' in code.co_filename:
            loc = f.f_locals
            if 'original_position' in loc and loc.get('length') not in (None, -1):
                return True
        f = f.f_back
        n += 1
    return False


class IoProxy(object):
    """Stands in for the ``io`` module inside pyasn1.codec.streaming so that the
    wrapper's drop threshold (io.DEFAULT_BUFFER_SIZE) becomes a per-run knob."""

    def __init__(self, real, threshold):
        self.__dict__['_real'] = real
        self.__dict__['DEFAULT_BUFFER_SIZE'] = threshold

    def __getattr__(self, name):
        return getattr(self.__dict__['_real'], name)


def _install_mark_observer(streaming):
    """Observe cache drops at the PUBLIC seam between decoder and wrapper: the decoder assigns
    ``substrate.markedPosition = substrate.tell()``; a drop renumbers the positions, which shows as
    ``tell()`` going backwards across that assignment (this renumbering is what upstream
    testMarkedPositionResets pins, and what F6 is about).  No private name of the wrapper is involved,
    so an internal restructuring of the wrapper leaves the observation intact."""
    import sys
    cls = getattr(streaming, 'CachingStreamWrapper', None)
    prop = cls.__dict__.get('markedPosition') if cls is not None else None
    if not isinstance(prop, property) or prop.fset is None or getattr(prop.fset, '_verif_observer', False):
        return
    orig = prop.fset

    def fset(self, value):
        try:
            before = self.tell()
        except Exception:
            before = None
        orig(self, value)
        try:
            after = self.tell()
        except Exception:
            after = None
        if before is not None and after is not None and after < before:
            DROP_EVENTS['drops'] += 1
            if _definite_frame_active(sys._getframe(1)):
                DROP_EVENTS['inside_definite'] += 1
    fset._verif_observer = True
    cls.markedPosition = property(prop.fget, fset, prop.fdel, prop.__doc__)


def reset_drop_events():
    DROP_EVENTS['drops'] = 0
    DROP_EVENTS['inside_definite'] = 0


def set_drop_threshold(threshold):
    """Install the knob (None = the shipped 8192, still observed).  Returns the previous object."""
    from pyasn1.codec import streaming
    DROP_EVENTS['drops'] = 0
    DROP_EVENTS['inside_definite'] = 0
    prev = getattr(streaming, 'io', None)
    if prev is None:
        # the seam is gone (the module no longer looks the buffer size up through `io.`): the knob
        # cannot be installed; runs proceed with the shipped threshold and say so
        DROP_EVENTS['knob_unavailable'] = DROP_EVENTS.get('knob_unavailable', 0) + 1
        return None
    real = prev.__dict__['_real'] if isinstance(prev, IoProxy) else prev
    streaming.io = IoProxy(real, 8192 if threshold is None else threshold)
    _install_mark_observer(streaming)
    return prev


def make_stream(kind, content, sid=0, trace=None):
    if kind == 'file':
        return SimFile(content, sid, trace)
    if kind == 'pipe':
        return SimPipe(content, sid, trace)
    if kind == 'bio':
        return SimBytesIO(content, sid, trace)
    raise ValueError(kind)
