"""Universe U: JSON schema descriptors -> pyasn1 schemas, seeded value generation,
value construction by one canonical route, and the abstract-value walker.

A descriptor is plain JSON data (so that it can live inside a plan / replay file):

  {"k": KIND, "tags": [[mode, cls, number], ...], ...}

  KIND                      extra keys
  BOOLEAN INTEGER NULL OID REAL OCTETSTRING BITSTRING
  UTF8 NUMERIC PRINTABLE IA5 VISIBLE BMP UNIVERSAL GENTIME UTCTIME
                            "con": {"range":[lo,hi]} | {"size":[lo,hi]} | {"alpha": "chars"}  (optional)
  ENUMERATED                "named": [[name, number], ...]
  SEQ SET                   "fields": [{"n": name, "d": desc, "opt": "R"|"O"|"D", "dv": pyvalue,
                                         "open": {"gov": name, "map": [[int, desc], ...]}}]
  SEQOF SETOF               "of": desc, "con": {"size":[lo,hi]} (optional)
  CHOICE                    "alts": [[name, desc], ...]
  ANY

mode is "I" or "E"; cls is "C" (context), "A" (application), "P" (private).

Python values ("pyvalues") are plain JSON too: int, bool, hex string for OCTET
STRING / ANY, '0101' string for BIT STRING, list of ints for OID, float /
"inf" / "-inf" / [m, b, e] for REAL, "" for NULL, str for character and time
strings, dict for SEQ/SET (absent OPTIONAL = missing key), list for the OF
types, [name, value] for CHOICE.
"""
import copy

from simkit import tlv

PRIMS = ('BOOLEAN', 'INTEGER', 'ENUMERATED', 'BITSTRING', 'OCTETSTRING', 'NULL',
         'OID', 'REAL', 'UTF8', 'NUMERIC', 'PRINTABLE', 'IA5', 'VISIBLE', 'BMP',
         'UNIVERSAL', 'GENTIME', 'UTCTIME')
CHARS = ('UTF8', 'NUMERIC', 'PRINTABLE', 'IA5', 'VISIBLE', 'BMP', 'UNIVERSAL')
TIMES = ('GENTIME', 'UTCTIME')
STRINGISH = ('OCTETSTRING', 'BITSTRING') + CHARS + TIMES   # may be chunked by the encoder
CONSTRUCTED = ('SEQ', 'SET', 'SEQOF', 'SETOF', 'CHOICE')

UNIVERSAL_NUMBER = {
    'BOOLEAN': 1, 'INTEGER': 2, 'BITSTRING': 3, 'OCTETSTRING': 4, 'NULL': 5, 'OID': 6,
    'REAL': 9, 'ENUMERATED': 10, 'UTF8': 12, 'SEQ': 16, 'SEQOF': 16, 'SET': 17,
    'SETOF': 17, 'NUMERIC': 18, 'PRINTABLE': 19, 'IA5': 22, 'UTCTIME': 23,
    'GENTIME': 24, 'VISIBLE': 26, 'UNIVERSAL': 28, 'BMP': 30,
}

ALPHABETS = {
    'NUMERIC': '0123456789 ',
    'PRINTABLE': 'ABCXYZabcxyz0189 \'()+,-./:=?',
    'IA5': ''.join(chr(c) for c in (0, 9, 10, 32, 48, 65, 97, 126, 127)),
    'VISIBLE': 'AZaz09 ~!',
    'UTF8': u'az09 é中\U0001f600',
    'BMP': u'az é中￮',
    'UNIVERSAL': u'az é中\U0001f600',
}

GENTIMES = ['20170801120112Z', '20170801120112.5Z', '19991231235959.123Z', '20380119031407Z',
            '20170801120112.25Z']
UTCTIMES = ['170801120112Z', '991231235959Z', '000101000000Z', '491231235959Z']

TAG_NUMBERS = [0, 1, 2, 3, 30, 31, 127, 128, 16383, 16384, 2 ** 32]


# ---------------------------------------------------------------------------
# descriptor helpers

def D(kind, **kw):
    d = {'k': kind, 'tags': []}
    d.update(kw)
    return d


def tagged(desc, mode, cls, number):
    d = dict(desc)
    d['tags'] = list(desc.get('tags', ())) + [[mode, cls, number]]
    return d


def outer_tags(desc):
    """Set of (class, number) outermost tags a value of desc may start with;
    None means 'anything' (untagged ANY)."""
    tags = desc.get('tags') or []
    if tags:
        mode, cls, number = tags[-1]
        return {(cls, number)}
    k = desc['k']
    if k == 'ANY':
        return None
    if k == 'CHOICE':
        out = set()
        for _, a in desc['alts']:
            t = outer_tags(a)
            if t is None:
                return None
            out |= t
        return out
    return {('U', UNIVERSAL_NUMBER[k])}


def has_kind(desc, kinds):
    if desc['k'] in kinds:
        return True
    return any(has_kind(c, kinds) for c in children(desc))


def has_key(desc, key):
    if desc.get(key):
        return True
    return any(has_key(c, key) for c in children(desc))


def children(desc):
    k = desc['k']
    if k in ('SEQ', 'SET'):
        out = []
        for f in desc['fields']:
            out.append(f['d'])
            if f.get('open'):
                out.extend(d for _, d in f['open']['map'])
        return out
    if k in ('SEQOF', 'SETOF'):
        return [desc['of']]
    if k == 'CHOICE':
        return [a for _, a in desc['alts']]
    return []


def has_implicit(desc):
    if any(t[0] == 'I' for t in desc.get('tags') or ()):
        return True
    return any(has_implicit(c) for c in children(desc))


def has_open(desc):
    if desc['k'] in ('SEQ', 'SET') and any(f.get('open') for f in desc['fields']):
        return True
    return any(has_open(c) for c in children(desc))


def has_exp_tagged_nonstring_prim(desc):
    """The F2 shape: explicitly tagged BOOLEAN/INTEGER/ENUMERATED/NULL/OID/REAL."""
    if desc['k'] in ('BOOLEAN', 'INTEGER', 'ENUMERATED', 'NULL', 'OID', 'REAL') and \
            any(t[0] == 'E' for t in desc.get('tags') or ()):
        return True
    return any(has_exp_tagged_nonstring_prim(c) for c in children(desc))


def desc_depth(desc):
    cs = children(desc)
    return 1 + (max(desc_depth(c) for c in cs) if cs else 0)


# ---------------------------------------------------------------------------
# descriptor generation (seeded)

class GenCfg(object):
    """Swarm switches for the generator."""

    def __init__(self, **kw):
        self.max_depth = 3
        self.max_fields = 5
        self.prims = list(PRIMS)
        self.allow_any = True
        self.allow_open = True
        self.allow_choice = True
        self.allow_tags = True
        self.allow_implicit = True
        self.allow_exp_prim = True      # F2 shape
        self.allow_constraints = False
        self.allow_constructed_default = False
        self.allow_untyped_of = False
        self.big_strings = False
        self.__dict__.update(kw)


def gen_desc(r, cfg, depth=0, top=True):
    """Draw one descriptor."""
    kinds = []
    if depth < cfg.max_depth:
        kinds += ['SEQ', 'SEQ', 'SET', 'SEQOF', 'SETOF']
        if cfg.allow_choice:
            kinds += ['CHOICE']
    w_con = len(kinds)
    kinds += list(cfg.prims)
    if top and depth == 0 and r.random() < 0.7 and w_con:
        k = r.choice(kinds[:w_con])
    else:
        k = r.choice(kinds)
    if k in PRIMS:
        d = gen_prim(r, cfg, k)
    elif k in ('SEQ', 'SET'):
        d = gen_record(r, cfg, k, depth)
    elif k in ('SEQOF', 'SETOF'):
        d = D(k, of=gen_desc(r, cfg, depth + 1, top=False))
        if d['of']['k'] == 'ANY' and not d['of']['tags']:
            d['of'] = tagged(d['of'], 'E', 'C', r.choice(TAG_NUMBERS))
        if cfg.allow_constraints and r.random() < 0.4:
            lo = r.choice([0, 1, 2])
            d['con'] = {'size': [lo, lo + r.choice([0, 1, 3])]}
            if lo and r.random() < 0.15:
                d['con'] = {'size': [lo, 'MAX']}
        if getattr(cfg, 'allow_untyped_of', False) and r.random() < 0.25 and not d['of']['tags'] and \
                d['of']['k'] in ('INTEGER', 'OCTETSTRING', 'BOOLEAN', 'NULL') and not d['of'].get('con') \
                and not d['of'].get('named'):
            # a collection declared without an element type (univ.SequenceOf(subtypeSpec=...)): the elements are
            # taken by their universal tags; the SIZE constraint is all the declaration says
            d['untyped'] = True
            if r.random() < 0.35:
                # the same SIZE declared through the documented legacy keyword, on a derived type
                d['con_api'] = r.choice(['sizeSpec-subtype', 'sizeSpec-clone', 'sizeSpec-init'])
    else:
        d = gen_choice(r, cfg, depth)
    if cfg.allow_tags and r.random() < 0.3:
        d = add_random_tag(r, cfg, d)
    return d


def add_random_tag(r, cfg, d):
    mode = 'E'
    if cfg.allow_implicit and r.random() < 0.5:
        mode = 'I'
    if d['k'] in ('CHOICE', 'ANY') and not d['tags']:
        mode = 'E'
    if mode == 'E' and not cfg.allow_exp_prim and \
            d['k'] in ('BOOLEAN', 'INTEGER', 'ENUMERATED', 'NULL', 'OID', 'REAL'):
        mode = 'I' if cfg.allow_implicit else None
    if mode is None:
        return d
    return tagged(d, mode, r.choice('CCAP'), r.choice(TAG_NUMBERS))


def gen_prim(r, cfg, k):
    d = D(k)
    if k in ('NUMERIC', 'PRINTABLE', 'IA5', 'VISIBLE') and r.random() < 0.12:
        # a text encoding other than the type's default (class-level `encoding` of a user subclass, or the
        # `encoding=` keyword): non-ASCII text becomes possible
        d['enc'] = r.choice(['utf-8', 'iso-8859-1'])
    if k == 'OCTETSTRING' and getattr(cfg, 'allow_octet_encoding', False) and r.random() < 0.2:
        # an OCTET STRING that declares a text encoding its octets need not follow (binary content under
        # encoding='utf-8'): str() of such a value fails, every other use must not
        d['enc'] = 'utf-8'
    if k == 'ENUMERATED':
        nums = r.sample([0, 1, 2, 5, 127, 128, -1, -129, 70000], r.randrange(1, 5))
        d['named'] = [['e%d' % i, n] for i, n in enumerate(nums)]
    if cfg.allow_constraints and r.random() < 0.5:
        if k == 'INTEGER':
            lo = r.choice([-200, -1, 0, 1, 100])
            d['con'] = {'range': [lo, lo + r.choice([0, 1, 10, 1000, 2 ** 33])]}
            x_ = r.random()
            hi_ = d['con']['range'][1]
            if x_ > 0.85:
                # half-open: (lo..MAX) or (MIN..hi)
                d['con'] = {'range': [lo, 'MAX']} if r.random() < 0.6 else {'range': ['MIN', hi_]}
            elif x_ < 0.2 and hi_ - lo >= 10:
                # exclusion of two operands:  INTEGER (lo..hi) (ALL EXCEPT ((a..b) | v))
                a_ = lo + 1
                d['con']['except'] = [[a_, a_ + r.choice([0, 2])], hi_ - 1]
            elif x_ < 0.35:
                # union of two ranges:  INTEGER ((lo..hi) | (hi+5..hi+6))
                d['con'] = {'union': [[lo, hi_], [hi_ + 5, hi_ + 5 + r.choice([0, 1])]]}
            elif x_ < 0.6:
                # a type refined twice:  T ::= INTEGER (lo..hi)   U ::= T (v1 | v2 | ...)
                hi = d['con']['range'][1]
                d['con']['refine_values'] = sorted(set([lo, hi] + ([(lo + hi) // 2] if r.random() < 0.5 else [])))
        elif k in ('OCTETSTRING',) + CHARS:
            lo = r.choice([0, 1, 2, 4])
            d['con'] = {'size': [lo, lo + r.choice([0, 1, 4, 200])]}
            if lo and r.random() < 0.15:
                d['con'] = {'size': [lo, 'MAX']}
            if k in CHARS and r.random() < 0.4:
                # permitted alphabet (FROM ...), alone or together with the size
                pool = [c for c in ALPHABETS[k] if c not in '\n\r']
                alpha = ''.join(r.sample(pool, r.randrange(1, min(6, len(pool)) + 1)))
                if r.random() < 0.5:
                    d['con'] = {'alpha': alpha}
                else:
                    d['con']['alpha'] = alpha
        elif k == 'BITSTRING':
            lo = r.choice([0, 1, 8, 9])
            d['con'] = {'size': [lo, lo + r.choice([0, 1, 7, 64])]}
    return d


def _fix_collisions(r, cfg, fields_descs, need_distinct):
    """Retag members so that outermost tags are pairwise distinct where ASN.1
    (and the library) requires it.  fields_descs: list of descs (modified copy
    returned).  need_distinct: list of index groups that must be distinct."""
    out = list(fields_descs)
    used_ctx = set()
    for d in out:
        for t in (outer_tags(d) or ()):
            if t[0] == 'C':
                used_ctx.add(t[1])

    def fresh():
        n = 0
        while n in used_ctx:
            n += 1
        used_ctx.add(n)
        return n

    for group in need_distinct:
        seen = set()
        for i in group:
            t = outer_tags(out[i])
            if t is None or (t & seen):
                d = out[i]
                mode = 'E'
                if cfg.allow_implicit and d['k'] not in ('CHOICE', 'ANY') and r.random() < 0.5:
                    mode = 'I'
                if d['k'] in ('CHOICE', 'ANY') and not d['tags']:
                    mode = 'E'
                if mode == 'E' and not cfg.allow_exp_prim and \
                        d['k'] in ('BOOLEAN', 'INTEGER', 'ENUMERATED', 'NULL', 'OID', 'REAL'):
                    mode = 'I'
                out[i] = tagged(d, mode, 'C', fresh())
                t = outer_tags(out[i])
            seen |= t
    return out


def gen_record(r, cfg, k, depth):
    nf = r.randrange(0, cfg.max_fields + 1) if r.random() < 0.9 else 0
    descs = []
    opts = []
    for i in range(nf):
        kinds_ok = True
        if cfg.allow_any and r.random() < 0.08:
            fd = D('ANY')
        else:
            fd = gen_desc(r, cfg, depth + 1, top=False)
        descs.append(fd)
        x = r.random()
        opt = 'R' if x < 0.55 else ('O' if x < 0.8 else 'D')
        if opt == 'D' and fd['k'] not in PRIMS and not cfg.allow_constructed_default:
            opt = 'O'
        if opt == 'D' and fd['k'] not in PRIMS and fd['k'] not in ('SEQOF', 'SETOF', 'SEQ', 'SET'):
            opt = 'O'
        opts.append(opt)
    # distinctness requirements
    if k == 'SET':
        groups = [list(range(nf))]
    else:
        groups = []
        run = []
        for i in range(nf):
            run.append(i)
            if opts[i] == 'R':
                if len(run) > 1:
                    groups.append(run)
                run = []
        if len(run) > 1:
            groups.append(run)
        # untagged ANY anywhere in a SEQUENCE with optional fields is ambiguous
        if any(o != 'R' for o in opts):
            for i in range(nf):
                if outer_tags(descs[i]) is None:
                    groups.append([i])
    descs = _fix_collisions(r, cfg, descs, groups)
    fields = []
    for i in range(nf):
        f = {'n': 'f%d' % i, 'd': descs[i], 'opt': opts[i]}
        fields.append(f)
    d = D(k, fields=fields)
    # defaults need a value of the field type
    for f in fields:
        if f['opt'] == 'D':
            f['dv'] = gen_value(r, f['d'], ValCfg(small=True))
    # open type: an ANY field governed by an earlier required INTEGER field
    if cfg.allow_open and cfg.allow_any and nf >= 1 and r.random() < 0.15:
        gov = {'n': 'gov', 'd': D('INTEGER'), 'opt': 'R'}
        m = []
        for key in r.sample([1, 2, 3, 4], r.randrange(1, 4)):
            inner = gen_desc(r, cfg, max(depth + 1, cfg.max_depth - 1), top=False)
            if inner['k'] == 'ANY' or (inner['k'] == 'CHOICE' and not inner['tags']):
                inner = D('INTEGER')
            m.append([key, inner])
        blob_d = D('ANY')
        if k == 'SET' or any(f['opt'] != 'R' for f in fields):
            blob_d = tagged(blob_d, 'E', 'C', 50)
        blob = {'n': 'blob', 'd': blob_d, 'opt': 'R', 'open': {'gov': 'gov', 'map': m}}
        if k == 'SET':
            gov['d'] = tagged(gov['d'], 'I', 'C', 51)
        elif fields and fields[-1]['opt'] != 'R' and ('U', 2) in (outer_tags(fields[-1]['d']) or {('U', 2)}):
            gov['d'] = tagged(gov['d'], 'I', 'C', 51)
        elif any(f['opt'] != 'R' for f in fields):
            gov['d'] = tagged(gov['d'], 'I', 'C', 51)
        d['fields'] = fields + [gov, blob]
    return d


def gen_scale(r):
    """(desc, value) of a shape that is rare under composition but ordinary in real schemas: wide records,
    long collections, many alternatives, deep tag stacks, deep nesting.  Counts sit around powers of two
    and the sizes a 'first N' shortcut would pick."""
    kind = r.choice(['wide-record', 'wide-record', 'long-of', 'long-of', 'many-alts', 'tag-stack', 'deep-of'])
    leaf = lambda: D(r.choice(['INTEGER', 'INTEGER', 'BOOLEAN', 'OCTETSTRING', 'NULL', 'UTF8']))
    if kind == 'wide-record':
        n = r.choice([17, 32, 33, 40, 64, 65, 130])
        fields, value = [], {}
        for i in range(n):
            d = tagged(leaf(), r.choice('IE') if i % 3 else 'I', r.choice('CCA'), i if r.random() < 0.8 else 1000 + i)
            if d['k'] in ('BOOLEAN', 'INTEGER', 'NULL') and d['tags'][-1][0] == 'E':
                d['tags'][-1][0] = 'I'
            opt = r.choice(['R', 'R', 'O', 'O', 'D']) if d['k'] != 'NULL' else r.choice(['R', 'O'])
            f = {'n': 'w%d' % i, 'd': d, 'opt': opt}
            if opt == 'D':
                f['dv'] = _gen_value(r, d, ValCfg(small=True))
            fields.append(f)
            if opt == 'R' or r.random() < 0.6:
                value[f['n']] = _gen_value(r, d, ValCfg(small=True))
        # distinct (class, number) pairs by construction except accidental repeats: drop duplicates
        seen, keep = set(), []
        for f in fields:
            key = tuple(f['d']['tags'][-1][1:])
            if key in seen:
                value.pop(f['n'], None)
                continue
            seen.add(key)
            keep.append(f)
        return D(r.choice(['SEQ', 'SET']), fields=keep), value
    if kind == 'long-of':
        n = r.choice([31, 32, 33, 127, 128, 129, 255, 256, 257, 1024, 1025, 1100])
        el = leaf()
        if el['k'] == 'NULL':
            el = D('INTEGER')
        if r.random() < 0.3:
            # hundreds of untagged CHOICE elements whose alternative is constructed
            el = D('CHOICE', alts=[['c', D('SEQ', fields=[{'n': 'a', 'd': D('INTEGER'), 'opt': 'R'}])],
                                   ['d', D('OCTETSTRING')], ['e', tagged(D('SEQOF', of=D('BOOLEAN')), 'I', 'C', 1)]])
        pool = [_gen_value(r, el, ValCfg(small=True)) for _ in range(4)]
        if el['k'] == 'CHOICE':
            n = r.choice([300, 520, 1025])
            pool = [['c', {'a': r.choice([0, 1, 300])}], ['e', [True, False]], ['c', {'a': -1}], ['d', '00']]
        return D(r.choice(['SEQOF', 'SETOF']), of=el), [r.choice(pool) for _ in range(n)]
    if kind == 'many-alts':
        n = r.choice([17, 32, 33, 64, 65])
        alts = [['a%d' % i, tagged(leaf(), 'I', 'C', i)] for i in range(n)]
        j = r.choice([0, n - 1, n - 2, n // 2, 31 % n, 32 % n])
        return D('CHOICE', alts=alts), [alts[j][0], _gen_value(r, alts[j][1], ValCfg(small=True))]
    if kind == 'tag-stack':
        d = D(r.choice(['OCTETSTRING', 'UTF8', 'BITSTRING']))
        for i in range(r.choice([3, 4, 6])):
            d = tagged(d, 'E', r.choice('CAP'), r.choice([0, 30, 31, 127, 128, 16384]))
        return d, _gen_value(r, d, ValCfg(small=True))
    depth = r.choice([6, 9, 17])
    d, v = D('INTEGER'), 5
    for i in range(depth):
        d, v = D(r.choice(['SEQOF', 'SETOF']), of=d), [v] * (2 if i == 0 else 1)
    return d, v


def gen_choice(r, cfg, depth):
    na = r.randrange(1, cfg.max_fields + 1)
    descs = []
    for i in range(na):
        a = gen_desc(r, cfg, depth + 1, top=False)
        descs.append(a)
    descs = _fix_collisions(r, cfg, descs, [list(range(na))])
    return D('CHOICE', alts=[['a%d' % i, a] for i, a in enumerate(descs)])


# ---------------------------------------------------------------------------
# value generation (seeded), pyvalues

class ValCfg(object):
    def __init__(self, **kw):
        self.small = False
        self.big_strings = False
        self.__dict__.update(kw)


INT_POOL = [0, 1, -1, 127, 128, -128, -129, 255, 256, 32767, -32768, 2 ** 31, -2 ** 31 - 1,
            2 ** 63, 2 ** 70, -2 ** 70]


def _len_choice(r, vc, lo=0, hi=None):
    pool = [0, 1, 2, 3, 5, 8, 17]
    if not vc.small:
        # around the short/long length form and the one/two-octet length boundaries
        pool += [125, 126, 127, 128, 129, 130, 255, 256, 257]
        if vc.big_strings:
            # around the CER fragment size and its multiples
            pool += [301, 999, 1000, 1001, 1100, 1999, 2000, 2001, 2500, 1001, 1000]
    if hi is not None:
        pool = [x for x in pool if lo <= x <= hi] or [lo]
    else:
        pool = [x for x in pool if x >= lo] or [lo]
    return r.choice(pool)


def gen_bounds(pair):
    """Finite stand-ins for open ends, for value generation only."""
    lo, hi = pair
    if lo == 'MIN':
        lo = hi - 1000
    if hi == 'MAX':
        hi = lo + 1000
    return lo, hi


def int_con_ok(con, x):
    """The INTEGER constraint forms of the universe as a plain predicate."""
    if 'union' in con:
        return any(a <= x <= b for a, b in con['union'])
    if 'range' in con and not _bound(con['range'][0]) <= x <= _bound(con['range'][1]):
        return False
    if 'refine_values' in con and x not in con['refine_values']:
        return False
    if 'except' in con:
        (a, b), v = con['except']
        if a <= x <= b or x == v:
            return False
    return True


def gen_value(r, desc, vc=None, govmap=None):
    """Draw a value.  Within one top-level call a quarter of the scalar leaves repeat the value drawn before
    for a leaf of the same kind and constraint: independent draws almost never coincide, and equal siblings
    (equal numbers, equal strings, equal lengths) are where caches, memos and sort ties live."""
    vc = vc or ValCfg()
    k = desc['k']
    if k in PRIMS and k not in ('BOOLEAN', 'NULL') and not desc.get('named'):
        memo = vc.__dict__.setdefault('_echo', {})
        key = (k, repr(sorted((desc.get('con') or {}).items())))
        if key in memo and r.random() < 0.25:
            return memo[key]
        v = _gen_value(r, desc, vc, govmap)
        try:
            hash(repr(v))
            memo[key] = v
        except Exception:
            pass
        return v
    return _gen_value(r, desc, vc, govmap)


def _gen_value(r, desc, vc=None, govmap=None):
    vc = vc or ValCfg()
    k = desc['k']
    con = desc.get('con') or {}
    if k == 'BOOLEAN':
        return r.random() < 0.5
    if k == 'INTEGER':
        if 'refine_values' in con:
            return r.choice(con['refine_values'])
        if 'union' in con:
            a, b = r.choice(con['union'])
            return r.choice([a, b, r.randint(a, b)])
        if 'range' in con:
            lo, hi = gen_bounds(con['range'])
            for _ in range(8):
                x = r.choice([lo, hi, (lo + hi) // 2, r.randint(lo, hi)])
                if int_con_ok(con, x):
                    return x
            return lo
        return r.choice(INT_POOL) if r.random() < 0.8 else r.randint(-70000, 70000)
    if k == 'ENUMERATED':
        return r.choice(desc['named'])[1]
    if k == 'NULL':
        return ''
    if k == 'BITSTRING':
        lo, hi = con.get('size', [0, None])
        hi = None if hi == 'MAX' else hi
        n = _len_choice(r, ValCfg(small=True), lo, hi if hi is not None else 40)
        return ''.join(r.choice('01') for _ in range(n))
    if k == 'OCTETSTRING':
        lo, hi = con.get('size', [0, None])
        hi = None if hi == 'MAX' else hi
        n = _len_choice(r, vc, lo, hi)
        return bytes(r.randrange(256) for _ in range(n)).hex()
    if k == 'OID':
        first = r.choice([0, 1, 2])
        second = r.randrange(40) if first < 2 else r.choice([0, 39, 40, 999, 2 ** 33])
        rest = [r.choice([0, 1, 127, 128, 16383, 16384, 2 ** 40]) for _ in range(r.randrange(0, 5))]
        return [first, second] + rest
    if k == 'REAL':
        return r.choice([0.0, 1.5, -3.25e10, 0.1, 'inf', '-inf', [123, 10, -5], [5, 2, 10],
                         [-7, 2, -3], [1, 10, 0], 1e-300, 123456789.0])
    if k in CHARS:
        lo, hi = con.get('size', [0, None])
        hi = None if hi == 'MAX' else hi
        n = _len_choice(r, vc, lo, hi)
        alpha = con.get('alpha') or ALPHABETS[k]
        if desc.get('enc') and not con.get('alpha'):
            alpha = alpha + u'\u00e9\u00fc'
        return ''.join(r.choice(alpha) for _ in range(n))
    if k == 'GENTIME':
        return r.choice(GENTIMES)
    if k == 'UTCTIME':
        return r.choice(UTCTIMES)
    if k == 'ANY':
        return gen_any_tlv(r).hex()
    if k in ('SEQ', 'SET'):
        out = {}
        for f in desc['fields']:
            if f.get('open'):
                continue
            if f['opt'] == 'O' and r.random() < 0.4:
                continue
            if f['opt'] == 'D':
                x = r.random()
                if x < 0.4:
                    continue
                if x < 0.6:
                    out[f['n']] = f['dv']
                    continue
            out[f['n']] = gen_value(r, f['d'], vc)
        for f in desc['fields']:
            if f.get('open'):
                keys = [key for key, _ in f['open']['map']]
                key = r.choice(keys + [99])
                out[f['open']['gov']] = key
                inner = dict((key_, d_) for key_, d_ in f['open']['map']).get(key)
                if inner is None:
                    out[f['n']] = ['raw', gen_any_tlv(r).hex()]
                else:
                    out[f['n']] = ['typed', key, gen_value(r, inner, vc)]
        return out
    if k in ('SEQOF', 'SETOF'):
        lo, hi = con.get('size', [0, None])
        hi = None if hi == 'MAX' else hi
        pool = [0, 1, 2, 3, 5] if not vc.small else [0, 1, 2]
        pool = [x for x in pool if x >= lo and (hi is None or x <= hi)] or [lo]
        n = r.choice(pool)
        out = []
        for _ in range(n):
            if out and r.random() < 0.2:
                out.append(copy.deepcopy(r.choice(out)))     # equal elements (duplicates in a SET OF, ties in a sort)
            else:
                out.append(gen_value(r, desc['of'], vc))
        return out
    if k == 'CHOICE':
        name, a = r.choice(desc['alts'])
        return [name, gen_value(r, a, vc)]
    raise ValueError(k)


def gen_any_tlv(r, depth=0):
    """A small well-framed definite-length TLV, from the independent writer."""
    x = r.random()
    if x < 0.3:
        return tlv.tlv(0, False, 2, bytes([r.randrange(128)]))
    if x < 0.5:
        return tlv.tlv(0, False, 4, bytes(r.randrange(256) for _ in range(r.choice([0, 1, 3, 130]))))
    if x < 0.6:
        return tlv.tlv(0, False, 5, b'')
    if x < 0.7:
        return tlv.tlv(2, False, r.choice([0, 31, 1000]), b'xy')
    if depth < 2:
        return tlv.tlv(0, True, r.choice([16, 17]),
                       b''.join(gen_any_tlv(r, depth + 1) for _ in range(r.randrange(0, 3))))
    return tlv.tlv(0, False, 1, b'\xff')


# ---------------------------------------------------------------------------
# pyasn1 side: imported lazily so that boot.ensure() decides which pyasn1

_P = {}


def P():
    if not _P:
        from pyasn1.type import univ, char, useful, namedtype, namedval, tag, constraint, opentype, base
        from pyasn1 import error
        _P.update(univ=univ, char=char, useful=useful, namedtype=namedtype, namedval=namedval,
                  tag=tag, constraint=constraint, opentype=opentype, base=base, error=error)
        _P['classes'] = {
            'BOOLEAN': univ.Boolean, 'INTEGER': univ.Integer, 'ENUMERATED': univ.Enumerated,
            'BITSTRING': univ.BitString, 'OCTETSTRING': univ.OctetString, 'NULL': univ.Null,
            'OID': univ.ObjectIdentifier, 'REAL': univ.Real, 'UTF8': char.UTF8String,
            'NUMERIC': char.NumericString, 'PRINTABLE': char.PrintableString,
            'IA5': char.IA5String, 'VISIBLE': char.VisibleString, 'BMP': char.BMPString,
            'UNIVERSAL': char.UniversalString, 'GENTIME': useful.GeneralizedTime,
            'UTCTIME': useful.UTCTime, 'SEQ': univ.Sequence, 'SET': univ.Set,
            'SEQOF': univ.SequenceOf, 'SETOF': univ.SetOf, 'CHOICE': univ.Choice,
            'ANY': univ.Any,
        }
    return _P


class _Ns(object):
    def __getattr__(self, name):
        return P()[name]


p = _Ns()


def _tag_class(c):
    return {'C': p.tag.tagClassContext, 'A': p.tag.tagClassApplication,
            'P': p.tag.tagClassPrivate}[c]


def _bound(x):
    """'MIN' / 'MAX' are the open ends of a range (float infinities, as generated modules write them)."""
    return float('-inf') if x == 'MIN' else float('inf') if x == 'MAX' else x


def _constraint(desc):
    con = desc.get('con') or {}
    cs = []
    if 'range' in con:
        cs.append(p.constraint.ValueRangeConstraint(_bound(con['range'][0]), _bound(con['range'][1])))
    if 'except' in con:
        (a, b), v = con['except']
        cs.append(p.constraint.ConstraintsExclusion(p.constraint.ValueRangeConstraint(a, b),
                                                    p.constraint.SingleValueConstraint(v)))
    if 'union' in con:
        cs.append(p.constraint.ConstraintsUnion(*[p.constraint.ValueRangeConstraint(a, b) for a, b in con['union']]))
    if 'size' in con:
        cs.append(p.constraint.ValueSizeConstraint(con['size'][0], _bound(con['size'][1])))
    if 'alpha' in con:
        cs.append(p.constraint.PermittedAlphabetConstraint(*list(con['alpha'])))
    if not cs:
        return None
    if len(cs) == 1 and 'refine_values' not in con and 'except' not in con:
        return cs[0]
    # the idiomatic form (Integer.subtypeSpec + ValueRangeConstraint(...)): a set that subtype() can extend
    return p.constraint.ConstraintsIntersection(*cs)


# How types are declared: None = instances configured through constructor arguments and subtype() (the way
# hand-written code does it); 'class' = user subclasses with class-level declarations (componentType,
# subtypeSpec, namedValues, tagSet), the way modules generated from ASN.1 sources do it.
STYLE = [None]


def build_schema(desc):
    """pyasn1 schema object for a descriptor, public API only."""
    k = desc['k']
    cls = P()['classes'][k]
    kw = {}
    con = _constraint(desc)
    if k == 'ENUMERATED':
        kw['namedValues'] = p.namedval.NamedValues(*[(n, v) for n, v in desc['named']])
    if desc.get('enc'):
        kw['encoding'] = desc['enc']
    if k in ('SEQ', 'SET'):
        nts = []
        for f in desc['fields']:
            sub = build_schema(f['d'])
            okw = {}
            if f.get('open'):
                m = dict((key, build_schema(d)) for key, d in f['open']['map'])
                okw['openType'] = p.opentype.OpenType(f['open']['gov'], m)
            if f['opt'] == 'R':
                nts.append(p.namedtype.NamedType(f['n'], sub, **okw))
            elif f['opt'] == 'O':
                nts.append(p.namedtype.OptionalNamedType(f['n'], sub, **okw))
            else:
                nts.append(p.namedtype.DefaultedNamedType(
                    f['n'], build_value(sub, f['d'], f['dv']), **okw))
        kw['componentType'] = p.namedtype.NamedTypes(*nts)
    elif k in ('SEQOF', 'SETOF'):
        if not desc.get('untyped'):
            kw['componentType'] = build_schema(desc['of'])
    elif k == 'CHOICE':
        kw['componentType'] = p.namedtype.NamedTypes(
            *[p.namedtype.NamedType(n, build_schema(a)) for n, a in desc['alts']])
    api = desc.get('con_api')
    if con is not None and not api:
        kw['subtypeSpec'] = con
    elif con is not None and api == 'sizeSpec-init':
        kw['sizeSpec'] = con
    class_tags = False
    if STYLE[0] == 'class' and not api:
        attrs = {}
        for key in ('componentType', 'namedValues', 'encoding'):
            if key in kw:
                attrs[key] = kw.pop(key)
        if 'subtypeSpec' in kw:
            attrs['subtypeSpec'] = cls.subtypeSpec + kw.pop('subtypeSpec')
        if k not in ('CHOICE', 'ANY') and desc.get('tags'):
            ts = cls.tagSet
            for mode, c, number in desc['tags']:
                t = p.tag.Tag(_tag_class(c), p.tag.tagFormatSimple, number)
                ts = ts.tagImplicitly(t) if mode == 'I' else ts.tagExplicitly(t)
            attrs['tagSet'] = ts
            class_tags = True
        cls = type('Gen' + cls.__name__, (cls,), attrs)
    obj = cls(**kw)
    if class_tags:
        if (desc.get('con') or {}).get('refine_values') is not None:
            obj = obj.subtype(subtypeSpec=p.constraint.SingleValueConstraint(*desc['con']['refine_values']))
        return obj
    if con is not None and api == 'sizeSpec-subtype':
        obj = obj.subtype(sizeSpec=con)
    elif con is not None and api == 'sizeSpec-clone':
        obj = obj.clone(sizeSpec=con)
    if (desc.get('con') or {}).get('refine_values') is not None:
        obj = obj.subtype(subtypeSpec=p.constraint.SingleValueConstraint(*desc['con']['refine_values']))
    for mode, c, number in desc.get('tags') or ():
        t = p.tag.Tag(_tag_class(c), p.tag.tagFormatSimple, number)
        if mode == 'I':
            obj = obj.subtype(implicitTag=t)
        else:
            obj = obj.subtype(explicitTag=t)
    return obj


def narrowed(sub, desc, v, slack=1):
    """The value as an object of a derived, NARROWER subtype of `sub` (Percent(50) for an INTEGER slot):
    the same abstract value behind another type object.  Falls back to a plain object."""
    C = p.constraint
    k = desc['k']
    try:
        if k in ('INTEGER', 'ENUMERATED') and isinstance(v, int) and not isinstance(v, bool) and not desc.get('named'):
            extra = C.ValueRangeConstraint(v - slack, v + slack)
        elif k == 'OCTETSTRING':
            n = len(v) // 2
            extra = C.ValueSizeConstraint(max(0, n - slack), n + slack)
        elif k in CHARS:
            extra = C.ValueSizeConstraint(max(0, len(v) - slack), len(v) + slack)
        else:
            return build_value(sub, desc, v)
        return sub.subtype(subtypeSpec=extra).clone(prim_arg(desc, v))
    except Exception:
        return build_value(sub, desc, v)


def prim_arg(desc, v):
    """Constructor argument for a primitive pyvalue."""
    k = desc['k']
    if k == 'OCTETSTRING' and isinstance(v, dict):
        return bytes.fromhex(v['rep']) * v['n'] + bytes.fromhex(v.get('tail', ''))     # compact notation for very long values
    if k == 'OCTETSTRING' or k == 'ANY':
        return bytes.fromhex(v)
    if k == 'BITSTRING':
        return _bits(v)
    if k == 'OID':
        return tuple(v)
    if k == 'REAL':
        if isinstance(v, list):
            return tuple(v)
        if v in ('inf', '-inf'):
            return v
        return float(v)
    if k == 'BOOLEAN':
        return bool(v)
    return v


def _bits(v):
    # BitString accepts a binary string literal "'0101'B"
    return "'%s'B" % v


def build_value(schema, desc, v):
    """Build a value by the canonical route: clone the schema, assign in
    declaration order.  `schema` is the pyasn1 schema object for this position."""
    k = desc['k']
    if k in PRIMS or k == 'ANY':
        return schema.clone(prim_arg(desc, v))
    if k in ('SEQ', 'SET'):
        obj = schema.clone()
        nts = schema.componentType
        for f in desc['fields']:
            if f['n'] not in v:
                continue
            sub = nts[f['n']].asn1Object
            fv = v[f['n']]
            if f.get('open'):
                if fv[0] == 'raw':
                    obj.setComponentByName(f['n'], sub.clone(bytes.fromhex(fv[1])))
                else:
                    inner_d = dict((key, d) for key, d in f['open']['map'])[fv[1]]
                    inner_schema = nts[f['n']].openType[fv[1]]
                    obj.setComponentByName(f['n'], build_value(inner_schema, inner_d, fv[2]),
                                           matchTags=False, matchConstraints=False)
                continue
            obj.setComponentByName(f['n'], build_value(sub, f['d'], fv))
        if not desc['fields'] or not v:
            # a record with no (present) fields is still a value once touched
            obj.clear() if not desc['fields'] else None
        return obj
    if k in ('SEQOF', 'SETOF'):
        obj = schema.clone()
        obj.clear()
        esch = schema.componentType if schema.componentType is not None else build_schema(desc['of'])
        for i, x in enumerate(v):
            obj.setComponentByPosition(i, build_value(esch, desc['of'], x))
        return obj
    if k == 'CHOICE':
        obj = schema.clone()
        name, x = v
        sub = schema.componentType[name].asn1Object
        a = dict((n, d) for n, d in desc['alts'])[name]
        obj.setComponentByName(name, build_value(sub, a, x))
        return obj
    raise ValueError(k)


def schema_problem(obj, depth=0):
    """pyasn1 reports some ill-formed schemas lazily (PostponedError objects in the
    tag maps).  Returns a description of the first such problem, or None (W7)."""
    univ = p.univ
    PE = p.namedtype.NamedTypes.PostponedError
    if depth > 12:
        return None
    try:
        if isinstance(obj, (univ.Sequence, univ.Set, univ.Choice)):
            nt = obj.componentType
            if isinstance(obj, (univ.Set, univ.Choice)) and isinstance(nt.tagMapUnique, PE):
                return 'tagMapUnique'
            if isinstance(obj, univ.Choice) or isinstance(obj, univ.Set):
                pass
            else:
                for idx in range(len(nt)):
                    if nt[idx].isOptional or nt[idx].isDefaulted:
                        if isinstance(nt.getTagMapNearPosition(idx), PE):
                            return 'tagMapNearPosition'
            if isinstance(obj.tagMap, PE) if hasattr(obj, 'tagMap') else False:
                return 'tagMap'
            for idx in range(len(nt)):
                sub = schema_problem(nt[idx].asn1Object, depth + 1)
                if sub:
                    return sub
                ot = nt[idx].openType
                if ot:
                    for v in ot.values():
                        sub = schema_problem(v, depth + 1)
                        if sub:
                            return sub
        elif isinstance(obj, (univ.SequenceOf, univ.SetOf)):
            if obj.componentType is not None:
                return schema_problem(obj.componentType, depth + 1)
    except p.error.PyAsn1Error as e:
        return 'raises:%s' % str(e)[:40]
    return None


# ---------------------------------------------------------------------------
# abstract value

def tagset_key(ts):
    return tuple((int(t.tagClass), int(t.tagFormat), int(t.tagId)) for t in ts.superTags)


def _library_class_name(o):
    """Name of the pyasn1 class an object is an instance of, looking through user subclasses (the abstract
    value does not depend on what a schema author called a subclass)."""
    for c in type(o).__mro__:
        if (getattr(c, '__module__', '') or '').startswith('pyasn1.'):
            return c.__name__
    return type(o).__name__


def absval(o, with_tags=True):
    """Nested tuples describing a pyasn1 object through public read-only API.
    Never uses == on pyasn1 objects and never instantiates placeholders."""
    univ = p.univ
    if o is None:
        return None
    if not isinstance(o, p.base.Asn1Item):
        return ('NOT-ASN1', type(o).__name__, repr(o)[:80])
    head = (_library_class_name(o), tagset_key(o.tagSet) if with_tags else ())
    if isinstance(o, univ.Choice):
        if not _safe_isvalue(o) and len(o) == 0:
            return head + ('EMPTY',)
        try:
            return head + (o.getName(), absval(o.getComponent(), with_tags))
        except p.error.PyAsn1Error:
            return head + ('EMPTY',)
    if isinstance(o, (univ.SequenceOf, univ.SetOf)):
        if not _is_touched(o):
            return head + ('NOVALUE',)
        return head + (tuple(absval(o.getComponentByPosition(i, default=None, instantiate=False), with_tags)
                             for i in range(len(o))),)
    if isinstance(o, (univ.Sequence, univ.Set)):
        n = len(o.componentType)
        if not n:
            if not _is_touched(o):
                return head + ('NOVALUE',)
            n = len(o)
        elif not _is_touched(o):
            return head + ('NOVALUE',)
        return head + (tuple(absval(o.getComponentByPosition(i, default=None, instantiate=False), with_tags)
                             for i in range(n)),)
    if not o.isValue:
        return head + ('NOVALUE',)
    if isinstance(o, univ.BitString):
        # asBinary() of the empty bit string is '0', the same as of the single bit 0
        return head + (o.asBinary() if len(o) else '',)
    if isinstance(o, univ.OctetString):
        try:
            return head + (o.asOctets(),)
        except p.error.PyAsn1Error:
            # a character string holding text its own encoding cannot express: described by the text itself
            try:
                return head + ('unencodable-text', str(o))
            except Exception as e:
                return head + ('unencodable-text', type(e).__name__)
    if isinstance(o, univ.ObjectIdentifier):
        return head + (o.asTuple(),)
    if isinstance(o, univ.Real):
        if o.isInf:
            return head + ('+inf' if o.isPlusInf else '-inf',)
        return head + (tuple(o),)
    if isinstance(o, univ.Integer):
        return head + (int(o),)
    return head + ('?', repr(o)[:80])


def absval_norm(o):
    """absval modulo lazy instantiation, which ASN.1 cannot tell apart: an absent
    DEFAULT component equals the default value, and an untouched placeholder in an
    OPTIONAL slot equals absence."""
    univ = p.univ
    a = absval(o)
    if not isinstance(o, p.base.Asn1Item):
        return a
    if isinstance(o, univ.Choice):
        try:
            return a[:2] + (o.getName(), absval_norm(o.getComponent()))
        except p.error.PyAsn1Error:
            return a
    if isinstance(o, (univ.SequenceOf, univ.SetOf)):
        if not _is_touched(o):
            return a
        return a[:2] + (tuple(absval_norm(o.getComponentByPosition(i, default=None, instantiate=False))
                              for i in range(len(o))),)
    if isinstance(o, (univ.Sequence, univ.Set)):
        if not _is_touched(o):
            return a
        ct = o.componentType
        n = len(ct) or len(o)
        items = []
        for i in range(n):
            c = o.getComponentByPosition(i, default=None, instantiate=False)
            ca = absval_norm(c)
            if len(ct):
                nt = ct[i]
                if ca is not None and len(ca) == 3 and ca[2] == 'NOVALUE' and (nt.isOptional or nt.isDefaulted):
                    ca = None
                if ca is None and nt.isDefaulted:
                    ca = absval_norm(nt.asn1Object)
            items.append(ca)
        if isinstance(o, univ.Set) and not len(ct):
            # a SET without declared components: the members are an unordered collection of
            # differently tagged values (DER/CER sort them by tag); marked so that absval_canon
            # can compare them as such
            return a[:2] + (tuple(items), 'dynamic-set')
        return a[:2] + (tuple(items),)
    return a


def absval_canon(o):
    """absval_norm with SET OF members sorted: the abstract value of a SET OF is a multiset."""
    return _canon(absval_norm(o))


_REAL_DIGITS = [15]


def absval_canon_coarse(o, digits=12):
    """absval_canon with base-10 REALs rounded to `digits` significant digits (used only to recognise
    the open finding F29, never as an oracle)."""
    old = _REAL_DIGITS[0]
    _REAL_DIGITS[0] = digits
    try:
        return _canon(absval_norm(o))
    finally:
        _REAL_DIGITS[0] = old


def _canon_key(x):
    return repr(jsonable(x))       # jsonable() prints very long ints in hexadecimal: repr() of them would raise


def _canon(a):
    if isinstance(a, tuple):
        if len(a) == 3 and a[0] == 'SetOf' and isinstance(a[2], tuple):
            return (a[0], a[1], tuple(sorted((_canon(x) for x in a[2]), key=_canon_key)))
        if len(a) == 4 and a[3] == 'dynamic-set' and isinstance(a[2], tuple):
            return (a[0], a[1], tuple(sorted((_canon(x) for x in a[2]), key=_canon_key)), a[3])
        if len(a) == 3 and a[0] == 'Real' and isinstance(a[2], tuple) and len(a[2]) == 3:
            return (a[0], a[1], _canon_real(a[2]))
        return tuple(_canon(x) for x in a)
    return a


def _canon_real(t):
    """(mantissa, base, exponent) denotes mantissa * base**exponent: the same number has many triples."""
    m, b, e = t
    try:
        if not isinstance(m, int):
            m = int(m) if float(m) == int(m) else m
        b, e = int(b), int(e)
    except (TypeError, ValueError, OverflowError):
        return t
    if not isinstance(m, int):
        return t
    if m == 0:
        return (0, 10, 0)
    if b == 10 and abs(m).bit_length() > 10000:
        return (m, b, e)        # beyond CPython's int-to-decimal limit: compared exactly
    if b == 10:
        # character-form REALs live as Python floats inside the library: 15 significant
        # decimal digits are what a double guarantees to carry through repr()/float()
        digits = len(str(abs(m)))
        if digits > _REAL_DIGITS[0]:
            drop = digits - _REAL_DIGITS[0]
            m = int(round(m / float(10 ** drop)))
            e += drop
    while m % b == 0:
        m //= b
        e += 1
    if b == 10 and e + len(str(abs(m))) < -290:
        # character-form REALs go through Python floats inside the library; below the
        # normal double range (subnormals) a float does not survive repr()/float() exactly,
        # so only the sign of such values is compared (stated in the C10 assumptions)
        return ('subnormal', 10, -1 if m < 0 else 1)
    return (m, b, e)


def _safe_isvalue(o):
    try:
        return bool(o.isValue)
    except Exception:
        return False


def _is_touched(o):
    """Constructed object: is it a value (possibly partially filled) rather than a schema?
    `components` on a schema object is the noValue sentinel."""
    try:
        return o.components is not p.base.noValue
    except p.error.PyAsn1Error:
        return False


def jsonable(a):
    """absval -> JSON-friendly (bytes to hex, tuples to lists)."""
    if isinstance(a, tuple) or isinstance(a, list):
        return [jsonable(x) for x in a]
    if isinstance(a, bytes):
        return 'h:' + a.hex()
    if isinstance(a, float):
        return repr(a)
    if isinstance(a, int) and not isinstance(a, bool) and a.bit_length() > 4000:
        return 'int:%s0x%x' % ('-' if a < 0 else '', abs(a))      # beyond CPython's int-to-decimal limit
    return a


def safe_repr(x, limit=300):
    """repr() for messages: never raises (CPython refuses to print very long ints)."""
    try:
        return repr(x)[:limit]
    except Exception as e:
        return '<unprintable %s: %s>' % (type(x).__name__, type(e).__name__)


# ---------------------------------------------------------------------------
# codecs

CODEC_NAMES = ('ber', 'ber-indef', 'ber-chunk', 'ber-indef-chunk', 'cer', 'der')


def codec(name):
    """(encoder module, decoder module, encode options)"""
    from pyasn1.codec.ber import encoder as benc, decoder as bdec
    from pyasn1.codec.cer import encoder as cenc, decoder as cdec
    from pyasn1.codec.der import encoder as denc, decoder as ddec
    if name == 'ber':
        return benc, bdec, {}
    if name == 'ber-indef':
        return benc, bdec, {'defMode': False}
    if name == 'ber-indef-int':
        return benc, bdec, {'defMode': 0}           # the flag given the old way, as an integer
    if name == 'ber-def-int':
        return benc, bdec, {'defMode': 1}
    if name.startswith('ber-chunk'):
        return benc, bdec, {'maxChunkSize': int(name.split(':')[1]) if ':' in name else 3}
    if name.startswith('ber-indef-chunk'):
        return benc, bdec, {'defMode': False, 'maxChunkSize': int(name.split(':')[1]) if ':' in name else 3}
    if name == 'cer':
        return cenc, cdec, {}
    if name == 'der':
        return denc, ddec, {}
    raise ValueError(name)


_RAWDUMP = []


def _rawdump_module():
    """The documented customisation of the BER decoder (cf. upstream testRawDump): user subclasses wired together
    through SINGLE_ITEM_DECODER / STREAMING_DECODER, here with defaultErrorState = stDumpRawValue, so that items
    with unrecognised tags are returned as raw ANY values instead of being refused."""
    if not _RAWDUMP:
        from pyasn1.codec.ber import decoder as bdec

        class RawDumpSingleItemDecoder(bdec.SingleItemDecoder):
            defaultErrorState = bdec.stDumpRawValue

        class RawDumpStreamingDecoder(bdec.StreamingDecoder):
            SINGLE_ITEM_DECODER = RawDumpSingleItemDecoder

        class RawDumpDecoder(bdec.Decoder):
            STREAMING_DECODER = RawDumpStreamingDecoder

        class _Mod(object):
            __name__ = 'ber-rawdump'
        m = _Mod()
        m.StreamingDecoder = RawDumpStreamingDecoder
        m.decode = RawDumpDecoder()
        _RAWDUMP.append(m)
    return _RAWDUMP[0]


def decoder_module(name):
    from pyasn1.codec.ber import decoder as bdec
    from pyasn1.codec.cer import decoder as cdec
    from pyasn1.codec.der import decoder as ddec
    if name == 'ber-rawdump':
        return _rawdump_module()
    return {'ber': bdec, 'cer': cdec, 'der': ddec}[name]


# ---------------------------------------------------------------------------
# semantic snapshot (DESIGN.md appendix C): pure function of public observables

def snapshot(obj, depth=0):
    """Everything a user can observe about a schema or value object, as a nested
    tuple.  Uses instantiate=False everywhere; never touches __dict__."""
    univ = p.univ
    if obj is None:
        return None
    if not isinstance(obj, p.base.Asn1Item):
        return ('NOT-ASN1', type(obj).__name__)
    out = [type(obj).__name__, tagset_key(obj.tagSet)]
    try:
        out.append(repr(obj.subtypeSpec))
    except Exception as e:
        out.append('subtypeSpec!' + type(e).__name__)
    if depth < 10:
        if isinstance(obj, (univ.Sequence, univ.Set, univ.Choice)):
            nts = []
            ct = obj.componentType
            for i in range(len(ct)):
                nt = ct[i]
                ot = None
                if nt.openType:
                    ot = (nt.openType.name, tuple(sorted((repr(k), snapshot(v, depth + 1)) for k, v in nt.openType.items())))
                nts.append((nt.name, bool(nt.isOptional), bool(nt.isDefaulted), snapshot(nt.asn1Object, depth + 1), ot))
            out.append(tuple(nts))
        elif isinstance(obj, (univ.SequenceOf, univ.SetOf)):
            out.append(snapshot(obj.componentType, depth + 1) if obj.componentType is not None else None)
    try:
        out.append(bool(obj.isValue))
    except Exception as e:
        out.append('isValue!' + type(e).__name__)
    out.append(absval_norm(obj))
    if depth == 0:
        from pyasn1.codec.ber import encoder as benc
        from pyasn1.codec.der import encoder as denc
        is_value = out[-2] is True
        for enc in (benc, denc):
            if not is_value:
                break       # a schema object has no encoding to observe
            try:
                out.append(enc.encode(obj))
            except Exception as e:
                out.append('encode!' + type(e).__name__)
        for probe in (0, b'', obj):
            for op in ('eq', 'ne'):
                try:
                    r = (obj == probe) if op == 'eq' else (obj != probe)
                    out.append(bool(r))
                except Exception as e:
                    out.append(op + '!' + type(e).__name__)
    return tuple(out)


# ---------------------------------------------------------------------------
# independent well-typedness evaluation (C10): from the descriptor's plain data only

def conforms(obj, desc, schema, path='$'):
    """Returns None if obj is a complete value of the type described by desc, else a
    short description of the first problem.  Uses the descriptor (plain data) and the
    public read API of the object; never pyasn1's constraint objects."""
    univ = p.univ
    k = desc['k']
    if not isinstance(obj, p.base.Asn1Item):
        return '%s: not an ASN.1 object (%s)' % (path, type(obj).__name__)
    want_cls = P()['classes'][k]
    if not isinstance(obj, want_cls):
        return '%s: %s where %s is declared' % (path, type(obj).__name__, want_cls.__name__)
    if k in ('INTEGER', 'ENUMERATED', 'BOOLEAN') and k == 'INTEGER' and isinstance(obj, (univ.Boolean, univ.Enumerated)):
        return '%s: %s where INTEGER is declared' % (path, type(obj).__name__)
    if tagset_key(obj.tagSet) != tagset_key(schema.tagSet):
        return '%s: tags %r where %r are declared' % (path, tagset_key(obj.tagSet), tagset_key(schema.tagSet))
    con = desc.get('con') or {}
    if k in PRIMS or k == 'ANY':
        if not obj.isValue:
            return '%s: not a value' % path
        if 'range' in con:
            lo, hi = _bound(con['range'][0]), _bound(con['range'][1])
            if not lo <= int(obj) <= hi:
                return '%s: %d outside %s..%s' % (path, int(obj), con['range'][0], con['range'][1])
        if 'refine_values' in con:
            if int(obj) not in con['refine_values']:
                return '%s: %d outside the permitted values %r' % (path, int(obj), con['refine_values'])
        if ('except' in con or 'union' in con) and not int_con_ok(con, int(obj)):
            return '%s: %d outside %r' % (path, int(obj), {k_: con[k_] for k_ in ('range', 'except', 'union') if k_ in con})
        if 'size' in con:
            lo, hi = con['size'][0], _bound(con['size'][1])
            n = len(obj)
            if not lo <= n <= hi:
                return '%s: size %d outside %s..%s' % (path, n, lo, con['size'][1])
        if 'alpha' in con:
            text = str(obj)
            bad = [c for c in text if c not in con['alpha']]
            if bad:
                return '%s: character %r outside the permitted alphabet' % (path, bad[0])
        if k == 'BOOLEAN' and int(obj) not in (0, 1):
            return '%s: BOOLEAN holding %r' % (path, int(obj))
        return None
    if k in ('SEQ', 'SET'):
        nts = schema.componentType
        for i, f in enumerate(desc['fields']):
            c = obj.getComponentByPosition(i, default=None, instantiate=False)
            if c is None:
                if f['opt'] == 'R':
                    return '%s.%s: mandatory component missing' % (path, f['n'])
                continue
            if f.get('open'):
                continue
            r = conforms(c, f['d'], nts[i].asn1Object, '%s.%s' % (path, f['n']))
            if r:
                return r
        return None
    if k in ('SEQOF', 'SETOF'):
        try:
            n = len(obj)
        except p.error.PyAsn1Error:
            return '%s: not a value' % path
        if not obj.isValue:
            return '%s: not a value (placeholder inside)' % path
        if 'size' in con:
            lo, hi = con['size'][0], _bound(con['size'][1])
            if not lo <= n <= hi:
                return '%s: %d elements outside SIZE(%s..%s)' % (path, n, lo, con['size'][1])
        for i in range(n):
            c = obj.getComponentByPosition(i, default=None, instantiate=False)
            if c is None:
                return '%s[%d]: hole' % (path, i)
            if desc.get('untyped'):
                # no element type is declared: any complete value will do
                if not c.isValue:
                    return '%s[%d]: not a value' % (path, i)
                continue
            r = conforms(c, desc['of'], schema.componentType, '%s[%d]' % (path, i))
            if r:
                return r
        return None
    if k == 'CHOICE':
        held = []
        for j, (name, a) in enumerate(desc['alts']):
            c = obj.getComponentByPosition(j, default=None, instantiate=False)
            if c is not None and c is not p.base.noValue and c.isValue:
                held.append((j, name, a, c))
        if len(held) != 1:
            return '%s: %d alternatives held' % (path, len(held))
        j, name, a, c = held[0]
        return conforms(c, a, schema.componentType[j].asn1Object, '%s.%s' % (path, name))
    return None
