"""Baton-passing scheduler for real threads (DESIGN.md C12, schedule 3).

Every task runs on its own OS thread, but exactly one thread is ever runnable:
the one holding the baton.  sys.settrace is installed in each task thread; at
every `line` event inside pyasn1 code the global step counter advances, and when
the plan says so the running thread hands the baton to another one and parks.
Which thread runs is therefore the plan's decision, not the OS's: a run replays
exactly.  No PRNG, no clock (timeouts are harness backstops only).
"""
import sys
import threading

PARK_TIMEOUT = 30.0


class SchedulerStall(Exception):
    pass


class BatonScheduler(object):
    def __init__(self, switches, root, trace=None, max_steps=2000000):
        # switches: list of [at_step, hint]
        self.switch_at = {}
        for at, hint in switches:
            self.switch_at.setdefault(int(at), int(hint))
        self.root = root
        self.trace = trace if trace is not None else []
        self.step = 0
        self.switch_count = 0
        self.max_steps = max_steps
        self.events = []
        self.done = []
        self.results = []
        self.stalled = False
        self.main_event = threading.Event()

    def run(self, fns):
        n = len(fns)
        self.events = [threading.Event() for _ in range(n)]
        self.done = [False] * n
        self.results = [None] * n
        threads = [threading.Thread(target=self._body, args=(i, fn), name='task-%d' % i, daemon=True)
                   for i, fn in enumerate(fns)]
        for t in threads:
            t.start()
        if n:
            self.events[0].set()
            if not self.main_event.wait(PARK_TIMEOUT * 4):
                self.stalled = True
        for t in threads:
            t.join(1.0 if self.stalled else PARK_TIMEOUT)
        if self.stalled or any(t.is_alive() for t in threads):
            raise SchedulerStall('thread scheduler stalled at step %d' % self.step)
        return self.results

    def _body(self, i, fn):
        if not self.events[i].wait(PARK_TIMEOUT * 4):
            self.stalled = True
            return

        last_line = {}

        def local_trace(frame, event, arg):
            # CPython 3.12 may or may not re-report the current line when a call made
            # from it returns, depending on how often the code has run before
            # (adaptive specialisation).  A step is therefore "this frame moved to a
            # different line", which does not depend on that.
            if event == 'line':
                key = id(frame)
                if last_line.get(key) != frame.f_lineno:
                    last_line[key] = frame.f_lineno
                    self._preempt(i)
            elif event == 'return':
                last_line.pop(id(frame), None)
            return local_trace

        root = self.root

        def global_trace(frame, event, arg):
            if frame.f_code.co_filename.startswith(root):
                return local_trace
            return None

        sys.settrace(global_trace)
        try:
            try:
                self.results[i] = ('ok', fn())
            except BaseException as e:   # noqa
                self.results[i] = ('exc', e)
        finally:
            sys.settrace(None)
            self._finish(i)

    def _runnable(self, me):
        return [j for j in range(len(self.done)) if not self.done[j] and j != me]

    def _preempt(self, i):
        self.step += 1
        hint = self.switch_at.get(self.step)
        if hint is None:
            return
        others = self._runnable(i)
        if not others:
            return
        target = others[hint % len(others)]
        self.switch_count += 1
        self.trace.append(['switch', self.step, i, target])
        self.events[i].clear()
        self.events[target].set()
        if not self.events[i].wait(PARK_TIMEOUT):
            self.stalled = True
            raise SchedulerStall('parked thread %d never got the baton back' % i)

    def _finish(self, i):
        self.done[i] = True
        self.trace.append(['finish', i, self.step])
        others = self._runnable(i)
        if others:
            self.events[others[0]].set()
        else:
            self.main_event.set()
