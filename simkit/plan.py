"""Plans are plain JSON documents; executing one draws nothing from any PRNG."""
import hashlib
import json


def canon(obj):
    return json.dumps(obj, sort_keys=True, separators=(',', ':'), ensure_ascii=True)


def digest(obj):
    return hashlib.sha256(canon(obj).encode()).hexdigest()


def short(obj, n=12):
    return digest(obj)[:n]


def hx(b):
    return bytes(b).hex()


def unhx(s):
    return bytes.fromhex(s)
