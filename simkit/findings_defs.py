"""Classifiers for the open entries of known_findings.json (see findings.py).

A classifier gets (check module, plan, violation record) and answers whether the
violation *is* that finding.  They are deliberately narrow: structural facts come
from the independent framing scanner, and differential re-execution of the same
plan with one knob changed."""
import copy

from simkit import tlv
from simkit.findings import classifier


def _drop_inside_definite(stream, threshold):
    """Could CachingStreamWrapper drop (and renumber) its cache at a mark point that
    lies inside a definite-length TLV?  Pure framing arithmetic.  The decoder sets
    the mark at the start of every TLV it descends into and, for an untagged
    CHOICE, once more right after the header; the cache is dropped at a mark when
    more than `threshold` bytes are cached.  Which TLVs are descended into depends
    on the schema, which the scanner does not know, so both mark sets (starts only;
    starts and header ends) are simulated and either may hit."""
    return _sim_marks(stream, threshold, False) or _sim_marks(stream, threshold, True)


def _sim_marks(stream, threshold, header_marks):
    pos = 0
    base = [0]
    hit = [False]

    def mark(p, inside_definite):
        if p - base[0] > threshold:
            base[0] = p
            if inside_definite:
                hit[0] = True

    def visit(n, open_definite):
        mark(n.start, open_definite)
        if header_marks:
            mark(n.hdr_end, open_definite or n.length != -1)
        inner = open_definite or (n.constructed and n.length != -1)
        for c in n.children:
            visit(c, inner)

    while pos < len(stream):
        try:
            n = tlv.scan(stream, pos)
        except (tlv.ScanError, RecursionError):
            break
        visit(n, False)
        pos = n.end
    return hit[0]


@classifier('f6_cache_renumbering')
def f6_cache_renumbering(mod, plan, viol):
    """F6: on a non-seekable stream the wrapper renumbers positions when it drops its
    cache at an element start, while enclosing definite-length frames still hold
    absolute positions."""
    conf = plan.get('config', {})
    if conf.get('kind') != 'pipe':
        return False
    thr = conf.get('threshold')
    if thr is None:
        thr = 8192
    stream = _plan_stream(plan)
    if stream is None or not _drop_inside_definite(stream, thr):
        return False
    p2 = copy.deepcopy(plan)
    p2['config']['threshold'] = 10 ** 9
    res = mod.execute(p2)
    return res['status'] != 'violation'


def _plan_stream(plan):
    from simkit import world as W
    if 'raw_hex' in plan.get('workload', {}):
        return bytes.fromhex(plan['workload']['raw_hex'])
    try:
        return W.Workload(plan['workload']).stream
    except W.Skip:
        return None
