"""Classifiers for the open entries of known_findings.json (see findings.py)."""
from simkit.findings import classifier
