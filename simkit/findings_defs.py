"""Classifiers for the open entries of known_findings.json (see findings.py).

A classifier gets (check module, plan, violation record) and answers whether the
violation *is* that finding.  They are deliberately narrow: structural facts come
from the independent framing scanner, and differential re-execution of the same
plan with one knob changed."""
import copy

from simkit import tlv
from simkit.findings import classifier


def _drop_inside_definite(stream, threshold, limit=None):
    """Could CachingStreamWrapper drop (and renumber) its cache at a mark point that
    lies inside a definite-length TLV?  Pure framing arithmetic.  The decoder sets
    the mark at the start of every TLV it descends into and, for an untagged
    CHOICE, once more right after the header; the cache is dropped at a mark when
    more than `threshold` bytes are cached.  Which TLVs are descended into depends
    on the schema, which the scanner does not know, so both mark sets (starts only;
    starts and header ends) are simulated and either may hit."""
    if limit is None:
        limit = len(stream)
    return _sim_marks(stream, threshold, False, limit) or _sim_marks(stream, threshold, True, limit)


def _sim_marks(stream, threshold, header_marks, limit):
    base = 0
    for start, hdr_end, end, constructed, definite, open_def in tlv.headers_tolerant(stream):
        if start <= limit and start - base > threshold:
            base = start
            if open_def:
                return True
        if header_marks and hdr_end <= limit and hdr_end - base > threshold:
            base = hdr_end
            if open_def or definite:
                return True
    return False


def _context(mod, plan, viol):
    """(kind, threshold, stream bytes, plan with the drop knob switched off)."""
    if hasattr(mod, 'finding_context'):
        return mod.finding_context(plan, viol)
    conf = plan.get('config', {})
    p2 = copy.deepcopy(plan)
    p2['config']['threshold'] = 10 ** 9
    return conf.get('kind'), conf.get('threshold'), _plan_stream(plan), None, p2


@classifier('f6_cache_renumbering')
def f6_cache_renumbering(mod, plan, viol):
    """F6: on a non-seekable stream the wrapper renumbers positions when it drops its
    cache at an element start, while enclosing definite-length frames still hold
    absolute positions."""
    kind, thr, stream, limit, p2 = _context(mod, plan, viol)
    if kind != 'pipe':
        return False
    if thr is None:
        thr = 8192
    observed = viol.get('detail', {}).get('cache_drops_inside_definite_frame')
    if observed is not None:
        # exact: the failing execution itself saw the wrapper drop and renumber its cache
        # while a definite-length decoding frame was holding absolute positions
        if not observed:
            return False
    elif stream is None or not _drop_inside_definite(stream, thr, limit):
        return False
    res = mod.execute(p2)
    if res['status'] != 'violation':
        return True
    return res['sig'] != viol['sig']


def _plan_stream(plan):
    from simkit import world as W
    if 'raw_hex' in plan.get('workload', {}):
        return bytes.fromhex(plan['workload']['raw_hex'])
    try:
        return W.Workload(plan['workload']).stream
    except W.Skip:
        return None


@classifier('f2_stray_eoo_after_definite_explicit_tag')
def f2_stray_eoo(mod, plan, viol):
    """F2: in indefinite-length mode (and CER) the encoder writes a *definite*
    header for an explicitly tagged BOOLEAN/INTEGER/ENUMERATED/NULL/OID/REAL and
    still appends an end-of-octets marker.  Keyed by the input shape; every
    downstream symptom is attributed to it only when the shape is present in the
    generated type, the mode is indefinite, and the same plan is clean in
    definite mode."""
    from simkit import universe as U
    w = plan['workload']
    codec = w['codec']
    if not ('indef' in codec or codec == 'cer'):
        return False
    if not U.has_exp_tagged_nonstring_prim(w['desc']):
        return False
    if not _stray_eoo_present(plan):
        return False
    p2 = copy.deepcopy(plan)
    p2['workload']['codec'] = 'ber'
    p2['workload']['decoder'] = 'ber'
    if 'config' in p2 and 'threshold' in p2['config']:
        p2['config']['threshold'] = 10 ** 9      # keep F6 out of the comparison
    res = mod.execute(p2)
    return res['status'] != 'violation'


def _stray_eoo_present(plan):
    """The symptom on the wire, by the independent scanner: at least one encoding
    of the workload is not exactly one well-framed TLV."""
    from simkit import world as W
    try:
        wl = W.Workload(plan['workload'])
    except W.Skip:
        return False
    return any(not tlv.well_framed(e) for e in wl.encodings)


@classifier('sig_match')
def sig_match(mod, plan, viol, entry):
    """Generic narrow signature: every key of entry['match'] lists the accepted values of
    the corresponding field of the violation signature (by position name)."""
    names = entry.get('sig_fields', ['invariant', 'op', 'exc_cls'])
    sig = viol['sig']
    m = entry.get('match', {})
    for i, name in enumerate(names):
        if name in m:
            val = sig[i] if i < len(sig) else None
            if val not in m[name]:
                return False
    return bool(m)


@classifier('f9g_overwrite_at_offset')
def f9g(mod, plan, viol, entry=None):
    """F9g: slice assignment on SEQUENCE OF/SET OF overwrites from the first selected position onwards (and
    raises for an empty selection) instead of resizing like a list.  The check computes what THAT behaviour
    predicts for the failing step; the violation is the known finding only if the object did exactly that.
    Any other divergence of a slice assignment is a new violation."""
    sig = viol['sig']
    if len(sig) < 2 or sig[1] != 'setslice_resize':
        return False
    return viol.get('detail', {}).get('f9g_alt') is True


# ---- C10: accepted values that the CER/DER encoders of the same family mishandle -------------

def _c10_family(plan):
    d = plan.get('decoder')
    return plan['workload']['decoder'] if d == 'own' else d


def _c10_clean_under_ber(mod, plan):
    p2 = copy.deepcopy(plan)
    p2['decoder'] = 'ber'
    if p2['workload']['codec'] in ('cer', 'der'):
        pass        # the input bytes stay what they were; only the decoder/encoder family changes
    res = mod.execute(p2)
    return res['status'] != 'violation'


def _has_optional_constructed(desc):
    from simkit import universe as U
    if desc['k'] in ('SEQ', 'SET'):
        for f in desc['fields']:
            if f['opt'] != 'R' and U.has_kind(f['d'], ('SEQ', 'SET', 'SEQOF', 'SETOF')):
                return True
    return any(_has_optional_constructed(c) for c in U.children(desc))


@classifier('f15_canonical_time_syntax_not_checked_by_decoder')
def f15(mod, plan, viol):
    from simkit import universe as U
    return (viol['sig'][0] == 'encoder-rejects-accepted-value' and _c10_family(plan) in ('cer', 'der')
            and (U.has_kind(plan['workload']['desc'], U.TIMES) or viol.get('detail', {}).get('result_has_time'))
            and _c10_clean_under_ber(mod, plan))


@classifier('f16_empty_optional_constructed_omitted')
def f16(mod, plan, viol):
    # the ifNotEmpty option leaks into the encoding of everything nested in the OPTIONAL component, so
    # empty containers deeper inside are dropped too; with a SIZE constraint the re-encoding is then refused
    return (viol['sig'][0] in ('reencoding-decodes-to-other-value', 'reencoding-not-decodable')
            and _c10_family(plan) in ('cer', 'der')
            and _has_optional_constructed(plan['workload']['desc']) and _c10_clean_under_ber(mod, plan))


@classifier('f19_time_fraction_zero_stripping')
def f19(mod, plan, viol):
    from simkit import universe as U
    return (viol['sig'][0] == 'reencoding-decodes-to-other-value' and _c10_family(plan) in ('cer', 'der')
            and U.has_kind(plan['workload']['desc'], ('GENTIME',)) and _c10_clean_under_ber(mod, plan))


@classifier('f2_c10_stray_eoo')
def f2_c10(mod, plan, viol):
    from simkit import universe as U
    return (viol['sig'][0] in ('reencoding-decodes-to-other-value', 'reencoding-not-decodable')
            and _c10_family(plan) == 'cer' and U.has_exp_tagged_nonstring_prim(plan['workload']['desc'])
            and _c10_clean_under_ber(mod, plan))


@classifier('f22_any_accepts_non_tlv_octets')
def f22(mod, plan, viol):
    from simkit import universe as U
    return (viol['sig'][0] in ('reencoding-not-decodable', 'reencoding-decodes-to-other-value')
            and _c10_family(plan) == 'cer' and U.has_kind(plan['workload']['desc'], ('ANY',))
            and _c10_clean_under_ber(mod, plan))


@classifier('f23_chunked_character_string_recursion')
def f23(mod, plan, viol):
    from simkit import universe as U
    if _c10_family(plan) != 'cer' or not U.has_kind(plan['workload']['desc'], U.CHARS + U.TIMES):
        return False
    if viol['sig'][0] == 'encoder-rejects-accepted-value' and viol['sig'][1] == 'RecursionError':
        return True
    # single-octet character sets: the fragments come out as OCTET STRINGs the decoder refuses
    return viol['sig'][0] == 'reencoding-not-decodable' and _c10_clean_under_ber(mod, plan)


# ---- C04: DEFAULT elision of constructed components relies on == of the raw component stores ----

def _demote_constructed_defaults(desc, kinds=('SEQ', 'SET', 'SETOF', 'CHOICE')):
    """Copy of desc in which DEFAULT components of the given constructed kinds are OPTIONAL."""
    from simkit import universe as U
    d = copy.deepcopy(desc)
    changed = [False]

    def walk(x):
        if x['k'] in ('SEQ', 'SET'):
            for f in x['fields']:
                if f['opt'] == 'D' and f['d']['k'] in U.CONSTRUCTED and U.has_kind(f['d'], kinds):
                    f['opt'] = 'O'
                    f.pop('dv', None)
                    changed[0] = True
                walk(f['d'])
        elif x['k'] in ('SEQOF', 'SETOF'):
            walk(x['of'])
        elif x['k'] == 'CHOICE':
            for n, a in x['alts']:
                walk(a)
    walk(d)
    return d, changed[0]


@classifier('f24_constructed_default_elision_by_raw_equality')
def f24(mod, plan, viol):
    """F24: whether a DEFAULT component of SET OF / SEQUENCE / SET type is left out of DER/CER is decided
    with ==, which for constructed values compares the raw component stores (F9f): order of insertion of
    SET OF members, lazily instantiated inner defaults and absent inner OPTIONALs all change the answer.
    CHOICE members compare through their raw stores too (and may raise).  SEQUENCE OF defaults of scalar
    element types are NOT covered (their comparison is positional and correct)."""
    if viol['sig'][0] not in ('replicas-diverge', 'read-only-use-changed-encoding', 'reencoding-decoded-canonical-differs'):
        return False
    d2, changed = _demote_constructed_defaults(plan['desc'])
    if not changed:
        return False
    p2 = copy.deepcopy(plan)
    p2['desc'] = d2
    res = mod.execute(p2)
    return res['status'] != 'violation'


@classifier('f25_nested_placeholder_counts_as_value')
def f25(mod, plan, viol):
    """F25: a subscript read of an absent constructed component stores a placeholder; a placeholder of a
    SEQUENCE/SET type whose components are all OPTIONAL/DEFAULT is born as a value, so once a *nested*
    read has put one inside an outer placeholder, the outer one has its mandatory component "present",
    counts as a value and is encoded.  Only reads that descend (deep_read) can trigger it: the same plan
    with every deep read replaced by a one-level read of all components must be clean."""
    if viol['sig'][0] != 'read-only-use-changed-encoding' or viol['sig'][2] != 'deep_read':
        return False
    p2 = copy.deepcopy(plan)
    for rep in p2['replicas']:
        rep['reads'] = [(['values', r_[1]] if r_[0] == 'deep_read' else r_) for r_ in rep['reads']]
    res = mod.execute(p2)
    return res['status'] != 'violation'


@classifier('f29_real_float_drift')
def f29(mod, plan, viol):
    """F29: a character-form REAL lives as a Python float inside the library and Real.prettyIn turns a float
    into (mantissa, 10, exponent) by multiplying by ten until it is whole, which accumulates rounding errors
    for small and large exponents: decode(encode(v)) differs from v beyond the 12th significant digit.  The
    check marks a re-encoding mismatch in which nothing but such digits differ."""
    return (viol['sig'][0] == 'reencoding-decodes-to-other-value' and
            'only REAL digits beyond the 12th differ' in str(viol.get('detail', {}).get('why', '')))


@classifier('f35_untyped_constructed_string_keeps_constructed_tag')
def f35(mod, plan, viol):
    """F35: a string decoded WITHOUT a type from its constructed form (an element of a component-less SEQUENCE/SET, or
    schemaless decoding) keeps the constructed bit of the identifier octet in its own tagSet; the encoders then emit
    that identifier in front of primitive content (23 01 00), which no decoder accepts."""
    return (viol['sig'][0] in ('reencoding-not-decodable', 'reencoding-decodes-to-other-value')
            and bool(viol.get('detail', {}).get('result_has_constructed_string_tag')))


@classifier('f26_real_not_encodable')
def f26(mod, plan, viol):
    from simkit import universe as U
    return (viol['sig'][0] == 'encoder-rejects-accepted-value' and viol['sig'][1] == 'OverflowError'
            and U.has_kind(plan['workload']['desc'], ('REAL',)))
