"""simkit -- deterministic simulation kernel for the pyasn1 checks (see DESIGN.md)."""
