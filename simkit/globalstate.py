"""Digest of process-global mutable state of pyasn1: module-level containers and
the attributes of codec singleton instances.  A codec call is supposed to leave all
of it alone ("no effect on ... configuration"), so the digest must be the same
before and after any history of calls."""
import sys
import types


def _brief(v, depth=0):
    if isinstance(v, dict):
        if depth > 1:
            return ('dict', len(v))
        return ('dict', len(v), tuple(sorted((repr(k)[:60], _brief(x, depth + 1)) for k, x in v.items())))
    if isinstance(v, (list, set, tuple, frozenset)):
        return (type(v).__name__, len(v))
    if isinstance(v, (int, str, bytes, bool, float)) or v is None:
        return repr(v)[:40]
    if isinstance(v, (types.FunctionType, types.MethodType, type, types.ModuleType)):
        return type(v).__name__
    mod = getattr(type(v), '__module__', '')
    if mod.startswith('pyasn1.codec') or mod == 'pyasn1.debug':
        d = getattr(v, '__dict__', None)
        if d is not None and depth < 3:
            return (type(v).__name__, tuple(sorted((k, _brief(x, depth + 1)) for k, x in d.items())))
    return type(v).__name__


def digest():
    out = []
    for name in sorted(m for m in sys.modules if m == 'pyasn1' or m.startswith('pyasn1.')):
        mod = sys.modules[name]
        if mod is None:
            continue
        for k, v in sorted(vars(mod).items()):
            if k.startswith('__'):
                continue
            if isinstance(v, (types.FunctionType, type, types.ModuleType)):
                continue
            b = _brief(v)
            if isinstance(b, tuple):
                out.append((name, k, b))
            elif k.isupper() or k in ('LOG', '_LOG'):
                out.append((name, k, b))
    return tuple(out)
