"""Process-global mutable state of pyasn1: enumeration, digest, and restoration.

What is enumerated: module-level containers, the attribute dictionaries of codec and
debug singleton instances (to depth 3), containers stored on classes defined by pyasn1
(class-level caches are shared by every instance and every codec singleton), and mutable
default arguments / function attributes of pyasn1 functions.  A codec call is supposed to
leave all of it alone ("no effect on ... configuration"), or at least never let it change
what another call returns.

digest()   -- a brief, order-independent description; a difference is a reason to look
              (a memo of immutable results is harmless), not a verdict.
capture() / restore(saved)
           -- the simulator's "process restart" fault: every enumerated container gets the
              content it had when the process was pristine (after imports, before any codec
              call).  Executing a task after restore() is executing it in a fresh process as
              far as the enumerated state goes, at no fork cost.
"""
import sys
import types

_CONTAINERS = (dict, list, set)


def _is_pyasn1_module(name):
    return name == 'pyasn1' or name.startswith('pyasn1.')


def _brief(v, depth=0):
    if isinstance(v, dict):
        if depth > 1:
            return ('dict', len(v))
        return ('dict', len(v), tuple(sorted((repr(k)[:60], _brief(x, depth + 1)) for k, x in v.items())))
    if isinstance(v, (list, set, tuple, frozenset)):
        return (type(v).__name__, len(v))
    if isinstance(v, (int, str, bytes, bool, float)) or v is None:
        return repr(v)[:40]
    if isinstance(v, (types.FunctionType, types.MethodType, type, types.ModuleType)):
        return type(v).__name__
    mod = getattr(type(v), '__module__', '')
    if mod.startswith('pyasn1.codec') or mod == 'pyasn1.debug':
        d = getattr(v, '__dict__', None)
        if d is not None and depth < 3:
            return (type(v).__name__, tuple(sorted((k, _brief(x, depth + 1)) for k, x in d.items())))
    return type(v).__name__


def _singleton_like(v):
    mod = getattr(type(v), '__module__', '')
    return (mod.startswith('pyasn1.codec') or mod == 'pyasn1.debug') and hasattr(v, '__dict__') \
        and not isinstance(v, (type, types.FunctionType, types.ModuleType))


def containers():
    """[(label, container)] in a deterministic order; each container object once."""
    out = []
    seen = set()

    def add(label, obj, depth):
        if id(obj) in seen:
            return
        if isinstance(obj, _CONTAINERS):
            seen.add(id(obj))
            out.append((label, obj))
            if depth < 3:
                items = obj.items() if isinstance(obj, dict) else enumerate(obj) if isinstance(obj, list) else ()
                for k, x in items:
                    if isinstance(x, _CONTAINERS) or _singleton_like(x):
                        add(label + '[%s]' % repr(k)[:40], x, depth + 1)
        elif _singleton_like(obj):
            seen.add(id(obj))
            out.append((label + '.__dict__', obj.__dict__))
            if depth < 3:
                for k, x in sorted(obj.__dict__.items()):
                    if isinstance(x, _CONTAINERS) or _singleton_like(x):
                        add(label + '.' + k, x, depth + 1)

    for name in sorted(m for m in sys.modules if _is_pyasn1_module(m)):
        mod = sys.modules[name]
        if mod is None:
            continue
        for k, v in sorted(vars(mod).items()):
            if k.startswith('__'):
                continue
            if isinstance(v, type):
                if getattr(v, '__module__', None) != name:
                    continue
                for ck, cv in sorted(vars(v).items(), key=lambda kv: kv[0]):
                    if ck.startswith('__'):
                        continue
                    if isinstance(cv, _CONTAINERS):
                        add('%s:%s.%s' % (name, k, ck), cv, 1)
                    elif isinstance(cv, (types.FunctionType, classmethod, staticmethod)):
                        fn = cv.__func__ if isinstance(cv, (classmethod, staticmethod)) else cv
                        _function_state(add, '%s:%s.%s' % (name, k, ck), fn)
            elif isinstance(v, types.FunctionType):
                if getattr(v, '__module__', None) == name:
                    _function_state(add, '%s:%s' % (name, k), v)
            elif isinstance(v, types.ModuleType):
                continue
            else:
                add('%s:%s' % (name, k), v, 0)
    return out


def _function_state(add, label, fn):
    for i, dv in enumerate(fn.__defaults__ or ()):
        if isinstance(dv, _CONTAINERS):
            add('%s(default %d)' % (label, i), dv, 2)
    for k, dv in sorted((fn.__kwdefaults__ or {}).items()):
        if isinstance(dv, _CONTAINERS):
            add('%s(default %s)' % (label, k), dv, 2)
    if fn.__dict__:
        add('%s.__dict__' % label, fn.__dict__, 2)


def digest():
    out = []
    for label, obj in containers():
        out.append((label, _brief(obj)))
    for name in sorted(m for m in sys.modules if _is_pyasn1_module(m)):
        mod = sys.modules[name]
        if mod is None:
            continue
        for k, v in sorted(vars(mod).items()):
            if (k.isupper() or k in ('LOG', '_LOG')) and (isinstance(v, (int, str, bytes, bool, float)) or v is None):
                out.append((name + ':' + k, repr(v)[:40]))
    return tuple(out)


def _shape():
    """Cheap fingerprint of what exists (not of what it holds): attribute counts of modules and of
    their classes, and the scalar upper-case module attributes.  A container that appears later (a
    lazily created class-level cache) changes it."""
    out = []
    for name in sorted(m for m in sys.modules if _is_pyasn1_module(m)):
        mod = sys.modules[name]
        if mod is None:
            continue
        d = vars(mod)
        n = len(d)
        for k, v in d.items():
            if isinstance(v, type):
                if getattr(v, '__module__', None) == name:
                    n += 1000 * len(vars(v))
            elif (k.isupper() or k in ('LOG', '_LOG')) and (isinstance(v, (int, str, bytes, bool, float)) or v is None):
                out.append((name, k, repr(v)[:40]))
        out.append((name, n))
    return tuple(out)


class Captured(list):
    shape = None
    classes = ()
    interp = None


def interp_config():
    """Interpreter-wide configuration a library call has no business changing."""
    import warnings
    return (('recursionlimit', sys.getrecursionlimit()), ('switchinterval', sys.getswitchinterval()),
            ('int_max_str_digits', sys.get_int_max_str_digits() if hasattr(sys, 'get_int_max_str_digits') else None),
            ('warnings.filters', len(warnings.filters)))


def restore_interp(cfg):
    d = dict(cfg)
    sys.setrecursionlimit(d['recursionlimit'])
    sys.setswitchinterval(d['switchinterval'])
    if d.get('int_max_str_digits') is not None:
        sys.set_int_max_str_digits(d['int_max_str_digits'])


def _library_classes():
    out = []
    for name in sorted(m for m in sys.modules if _is_pyasn1_module(m)):
        mod = sys.modules[name]
        if mod is None:
            continue
        for k, v in sorted(vars(mod).items()):
            if isinstance(v, type) and getattr(v, '__module__', None) == name:
                out.append(v)
    return out


def capture():
    """Shallow copies of every enumerated container, and the attribute tables of the library's classes (call
    while the process is pristine)."""
    c = Captured((label, obj, obj.copy()) for label, obj in containers())
    c.shape = _shape()
    c.classes = [(cls, dict(vars(cls))) for cls in _library_classes()]
    c.interp = interp_config()
    return c


def _restore_classes(captured):
    """Class attributes added or rebound since the capture (a lazily cached codec, a flag) are removed / put back."""
    moved = []
    for cls, saved in captured.classes:
        cur = vars(cls)
        for k in list(cur):
            if k.startswith('__') and k.endswith('__'):
                continue
            if k not in saved:
                try:
                    delattr(cls, k)
                    moved.append('%s.%s' % (cls.__name__, k))
                except (AttributeError, TypeError):
                    pass
            elif cur[k] is not saved[k]:
                try:
                    setattr(cls, k, saved[k])
                    moved.append('%s.%s' % (cls.__name__, k))
                except (AttributeError, TypeError):
                    pass
    return moved


def moved(captured):
    """Labels of captured containers whose content differs from the captured content, plus
    '<shape>' when attributes appeared, disappeared or scalar flags changed.  Cheap."""
    out = [label for label, obj, saved in captured if not _same(obj, saved)]
    if captured.shape is not None and _shape() != captured.shape:
        out.append('<shape>')
    return out


def _same(obj, saved):
    if len(obj) != len(saved):
        return False
    if isinstance(obj, dict):
        for k, v in obj.items():
            if k not in saved or saved[k] is not v:
                return False
        return True
    if isinstance(obj, list):
        return all(a is b for a, b in zip(obj, saved))
    return obj == saved


def restore(captured):
    """Give every captured container its captured content back (identity of the container is
    kept).  Returns the labels of the containers that had moved."""
    moved = []
    for label, obj, saved in captured:
        if _same(obj, saved):
            continue
        moved.append(label)
        obj.clear()
        if isinstance(obj, list):
            obj.extend(saved)
        else:
            obj.update(saved)
    moved.extend(_restore_classes(captured))
    return moved
