"""Stored-byte corruption faults: applied to a valid encoding *before* it is read.

An op list is plain JSON and applying it is a pure function, so a plan carrying
ops replays exactly.  Positions are taken modulo the current length, so ops stay
applicable while the shrinker changes the workload."""

STRUCT = [0x00, 0x80, 0x81, 0x84, 0xff, 0x30, 0x31, 0x24, 0xa0, 0x1f, 0x7f, 0x02, 0x04, 0x05]
CONTENT = [0x00, 0x01, 0x02, 0x03, 0x07, 0x08, 0x09, 0x40, 0x41, 0x42, 0x43, 0x7f, 0x80, 0x81, 0x82, 0x83, 0xc0, 0xc3, 0xff]


def apply(b, ops):
    b = bytearray(b)
    for op in ops:
        k = op[0]
        n = len(b)
        if k == 'trunc':
            del b[max(0, min(n, op[1])):]
            continue
        if n == 0:
            if k == 'ins':
                b[0:0] = bytes.fromhex(op[2])
            continue
        p = op[1] % n
        if k == 'flip':
            b[p] ^= (1 << (op[2] % 8))
        elif k == 'set':
            b[p] = op[2] & 0xff
        elif k == 'ins':
            b[p:p] = bytes.fromhex(op[2])
        elif k == 'del':
            del b[p:p + max(1, op[2])]
        elif k == 'dup':
            q = min(n, p + max(1, op[2]))
            b[q:q] = b[p:q]
        elif k == 'len':
            # overwrite the octets at p with a new length field
            new = bytes.fromhex(op[2])
            b[p:p + max(1, op[3])] = new
    return bytes(b)


def gen_ops(r, b, nodes=None, max_ops=3):
    """Seeded corruption plan for encoding b.  nodes: list of framing nodes
    (start, tag_end, hdr_end, end) to aim structural faults at."""
    ops = []
    n = max(1, len(b))
    for _ in range(r.choice([1, 1, 1, 2, 3][:max(1, max_ops + 2)])):
        x = r.random()
        node = r.choice(nodes) if nodes else None
        if x < 0.25:
            ops.append(['flip', r.randrange(n), r.randrange(8)])
        elif x < 0.36:
            pos = r.randrange(n)
            if node is not None and r.random() < 0.6:
                pos = r.choice([node[0], node[1], max(node[0], node[2] - 1)])
            ops.append(['set', pos, r.choice(STRUCT)])
        elif x < 0.45:
            # the first content octets of an element carry structure of their own (REAL forms,
            # BIT STRING pad count, OID continuation, sign): aim at them
            pos = r.randrange(n)
            if node is not None:
                pos = node[2] + r.choice([0, 0, 1, 2])
            ops.append(['set', pos, r.choice(CONTENT)])
        elif x < 0.55:
            ops.append(['ins', r.randrange(n + 1) if n else 0,
                        bytes(r.choice(STRUCT) for _ in range(r.choice([1, 1, 2, 4]))).hex()])
        elif x < 0.65:
            ops.append(['del', r.randrange(n), r.choice([1, 1, 2, 5])])
        elif x < 0.75 and node is not None:
            ops.append(['dup', node[0], node[3] - node[0]])
        elif x < 0.9 and node is not None:
            # rewrite the length field of a TLV
            old = node[2] - node[1]
            true_len = node[3] - node[2]
            choice = r.choice(['zero', 'indef', 'plus1', 'minus1', 'huge', 'long-form', 'absurd'])
            if choice == 'zero':
                new = '00'
            elif choice == 'indef':
                new = '80'
            elif choice == 'plus1':
                new = _enc_len(true_len + 1)
            elif choice == 'minus1':
                new = _enc_len(max(0, true_len - 1))
            elif choice == 'huge':
                new = '84ffffffff'
            elif choice == 'long-form':
                new = '8200' + ('%02x' % (true_len & 0xff))
            else:
                new = '89' + 'ff' * 9
            ops.append(['len', node[1], new, old])
        elif node is not None:
            ops.append(['set', node[0], r.choice(STRUCT + [0x3f, 0xbf, 0x9f, 0x23, 0x2c, 0x0c, 0x09, 0x06, 0x03, 0x01])])
        else:
            ops.append(['trunc', r.randrange(n)])
    if r.random() < 0.1:
        ops.append(['trunc', r.randrange(n)])
    return ops


def _enc_len(n):
    if n < 0x80:
        return '%02x' % n
    body = n.to_bytes((n.bit_length() + 7) // 8, 'big')
    return ('%02x' % (0x80 | len(body))) + body.hex()


def nodes_of(b):
    from simkit import tlv
    out = []
    pos = 0
    while pos < len(b):
        try:
            n = tlv.scan(b, pos)
        except (tlv.ScanError, RecursionError):
            break
        for x in tlv.walk(n):
            out.append((x.start, x.tag_end, x.hdr_end, x.end))
        pos = n.end
    return out
