"""Stored-byte corruption faults: applied to a valid encoding *before* it is read.

An op list is plain JSON and applying it is a pure function, so a plan carrying
ops replays exactly.  Positions are taken modulo the current length, so ops stay
applicable while the shrinker changes the workload."""

STRUCT = [0x00, 0x80, 0x81, 0x84, 0xff, 0x30, 0x31, 0x24, 0xa0, 0x1f, 0x7f, 0x02, 0x04, 0x05]
CONTENT = [0x00, 0x01, 0x02, 0x03, 0x07, 0x08, 0x09, 0x40, 0x41, 0x42, 0x43, 0x7f, 0x80, 0x81, 0x82, 0x83, 0xc0, 0xc3, 0xff]


def apply(b, ops):
    b = bytearray(b)
    for op in ops:
        k = op[0]
        n = len(b)
        if k == 'trunc':
            del b[max(0, min(n, op[1])):]
            continue
        if k == 'tree':
            b = bytearray(tree_op(bytes(b), op[1], op[2], op[3] if len(op) > 3 else None))
            continue
        if n == 0:
            if k == 'ins':
                b[0:0] = bytes.fromhex(op[2])
            continue
        p = op[1] % n
        if k == 'flip':
            b[p] ^= (1 << (op[2] % 8))
        elif k == 'set':
            b[p] = op[2] & 0xff
        elif k == 'ins':
            b[p:p] = bytes.fromhex(op[2])
        elif k == 'del':
            del b[p:p + max(1, op[2])]
        elif k == 'dup':
            q = min(n, p + max(1, op[2]))
            b[q:q] = b[p:q]
        elif k == 'len':
            # overwrite the octets at p with a new length field
            new = bytes.fromhex(op[2])
            b[p:p + max(1, op[3])] = new
    return bytes(b)


# ---------------------------------------------------------------------------
# grammar-aware damage: edits of the TLV *tree* with every enclosing length recomputed, so that the
# result is still framed and the damage reaches the payload decoders instead of the framing checks

TREE_KINDS = ['empty', 'content', 'ident', 'dup', 'drop', 'swap', 'toindef', 'todef', 'fragment', 'zero-child',
              'nest', 'bloat', 'longtag']


class _T(object):
    __slots__ = ('ident', 'indef', 'kids', 'content', 'lenpad')

    def __init__(self):
        self.lenpad = 0


def _to_tree(b, n):
    t = _T()
    t.ident = bytes(b[n.start:n.tag_end])
    t.indef = n.length == -1
    if n.constructed:
        t.kids = [_to_tree(b, c) for c in n.children]
        t.content = None
    else:
        t.kids = None
        t.content = bytes(b[n.hdr_end:n.end])
    return t


def _ser(t):
    body = t.content if t.kids is None else b''.join(_ser(k) for k in t.kids)
    if t.kids is not None and t.content:
        body += t.content         # raw octets placed after the children of a constructed node
    if t.indef and t.ident and t.ident[0] & 0x20:
        return t.ident + b'\x80' + body + b'\x00\x00'
    if t.lenpad:
        n = len(body)
        nb = n.to_bytes(max(1, (n.bit_length() + 7) // 8), 'big')
        return t.ident + bytes([0x80 | (t.lenpad - 1 + len(nb))]) + b'\x00' * (t.lenpad - 1) + nb + body
    return t.ident + bytes.fromhex(_enc_len(len(body))) + body


def _flat(t, parent, out):
    out.append((t, parent))
    for k in (t.kids or ()):
        _flat(k, t, out)


def tree_op(b, kind, index, arg=None):
    """Pure function; returns b unchanged when b is not a sequence of well-framed TLVs."""
    from simkit import tlv
    tops = []
    pos = 0
    try:
        while pos < len(b):
            n = tlv.scan(b, pos)
            tops.append(_to_tree(b, n))
            pos = n.end
    except (tlv.ScanError, RecursionError):
        return b
    root = _T()
    root.ident, root.indef, root.kids, root.content = b'', False, tops, None
    flat = []
    for t in tops:
        _flat(t, root, flat)
    if not flat:
        return b
    t, parent = flat[index % len(flat)]
    sib = parent.kids
    i = [k for k, x in enumerate(sib) if x is t][0]
    if kind == 'empty':
        if t.kids is None:
            t.content = b''
        else:
            t.kids = []
    elif kind == 'content':
        raw = bytes.fromhex(arg or '')
        if t.kids is None:
            t.content = raw
        else:
            t.kids, t.content = [], raw
    elif kind == 'bloat':
        # very long content for a primitive node (an INTEGER of thousands of digits, a tag number of thousands of
        # bits, ...): beyond what CPython turns into decimal text, which is where message formatting breaks
        fill, n = (arg or '7f:2000').split(':')
        if t.kids is None:
            t.content = bytes([int(fill, 16)]) + b'\x5a' * (int(n) - 1)
    elif kind == 'longtag':
        fill, n = (arg or 'ff:2100').split(':')
        first = (t.ident[0] if t.ident else 0x1f) | 0x1f
        t.ident = bytes([first]) + bytes([int(fill, 16) | 0x80]) * int(n) + b'\x01'
    elif kind == 'ident':
        t.ident = bytes.fromhex(arg or '04')
        if t.kids is not None and not t.ident[0] & 0x20:
            t.content = b''.join(_ser(k) for k in t.kids)
            t.kids, t.indef = None, False
        elif t.kids is None and t.ident[0] & 0x20:
            t.kids, t.content = [], t.content
    elif kind == 'dup':
        sib.insert(i, t)
    elif kind == 'drop':
        del sib[i]
    elif kind == 'swap':
        if i + 1 < len(sib):
            sib[i], sib[i + 1] = sib[i + 1], sib[i]
    elif kind == 'toindef':
        if t.kids is not None:
            t.indef = True
    elif kind == 'todef':
        t.indef = False
    elif kind == 'fragment':
        # primitive -> constructed form of the same tag holding the content as primitive fragments;
        # arg = "<fragment identifier hex or ->:<d|i>:<split>"  (definite/indefinite; where the content is cut)
        if t.kids is None and t.ident:
            a = (arg or '-:d:half').split(':')
            if a[0] != '-':
                frag_tag = bytes.fromhex(a[0])
            else:
                frag_tag = bytes([t.ident[0] & 0x1f]) if len(t.ident) == 1 and not t.ident[0] & 0xc0 else b'\x04'
            c = t.content
            cuts = {'half': [c[:len(c) // 2], c[len(c) // 2:]], 'empty-first': [b'', c], 'empty-last': [c, b''],
                    'single': [c], 'three': [c[:1], c[1:2], c[2:]], 'none': []}[a[2] if len(a) > 2 else 'half']
            kids = []
            for part in cuts:
                k = _T()
                k.ident, k.indef, k.kids, k.content = frag_tag, False, None, part
                kids.append(k)
            t.ident = bytes([t.ident[0] | 0x20]) + t.ident[1:]
            t.kids, t.content = kids, None
            t.indef = len(a) > 1 and a[1] == 'i'
    elif kind == 'zero-child':
        if t.kids is not None:
            k = _T()
            k.ident, k.indef, k.kids, k.content = bytes.fromhex(arg or '04'), False, None, b''
            t.kids.insert(len(t.kids) // 2, k)
    elif kind == 'nest':
        # wrap the node into a constructed node with identifier arg
        w = _T()
        w.ident, w.indef, w.kids, w.content = bytes.fromhex(arg or '30'), False, [t], None
        sib[i] = w
    return b''.join(_ser(x) for x in tops)


# ---------------------------------------------------------------------------
# BER *variants*: edits of the TLV tree that X.690 says do not change the abstract value (other length
# forms, constructed strings, other octets for TRUE).  Used by C04 to obtain "any BER form" of a value
# beyond those the library's own encoder produces; the caller admits a variant only if decoding it
# gives the target abstract value, so an unsound edit costs reach, never soundness.

STRING_TAGS = (4, 12, 18, 19, 20, 21, 22, 25, 26, 27, 28, 30, 23, 24)
VARIANT_KINDS = ['longlen', 'longlen', 'toindef', 'fragment', 'fragment', 'booltrue']


def variant_op(b, kind, index, arg=None):
    from simkit import tlv
    try:
        n = tlv.scan(b)
        if n.end != len(b):
            return b
    except (tlv.ScanError, RecursionError):
        return b
    top = _to_tree(b, n)
    flat = []
    _flat(top, None, flat)
    t, _parent = flat[index % len(flat)]
    universal = len(t.ident) == 1 and not t.ident[0] & 0xc0
    num = t.ident[0] & 0x1f if universal else None
    if kind == 'longlen':
        if not t.indef:
            t.lenpad = 1 + (arg or 0) % 3
    elif kind == 'toindef':
        if t.kids is not None:
            t.indef = True
    elif kind == 'booltrue':
        if universal and num == 1 and t.kids is None and t.content not in (b'', b'\x00'):
            t.content = bytes([(arg or 0x2a) & 0xff or 1])
    elif kind == 'fragment':
        if universal and t.kids is None and (num in STRING_TAGS or num == 3):
            c = t.content
            cut = (arg or 0) % (len(c) + 1)
            if num == 3:
                if not c:
                    return b
                cut = max(1, cut)
                if c[0] and cut >= len(c):
                    cut = len(c) - 1        # unused bits need at least one content octet in the last fragment
                    if cut < 1:
                        return b
                parts = [b'\x00' + c[1:cut], c[:1] + c[cut:]]
            else:
                parts = [c[:cut], c[cut:]]
            kids = []
            for part in parts:
                k = _T()
                k.ident, k.indef, k.kids, k.content = bytes([4 if num != 3 else 3]), False, None, part
                kids.append(k)
            t.ident = bytes([t.ident[0] | 0x20])
            t.kids, t.content = kids, None
            t.indef = bool((arg or 0) & 0x100)
    return _ser(top)


def gen_variant_ops(r, n_nodes_hint=8):
    ops = []
    for _ in range(r.choice([1, 1, 2, 3, 5])):
        ops.append([r.choice(VARIANT_KINDS), r.randrange(max(1, n_nodes_hint) * 4), r.randrange(0x200)])
    return ops


def apply_variant(b, ops):
    for kind, index, arg in ops:
        b = variant_op(b, kind, index, arg)
    return b


def gen_tree_op(r, nodes):
    kind = r.choice(TREE_KINDS)
    idx = r.randrange(max(1, len(nodes or [1])))
    arg = None
    if kind == 'content':
        arg = bytes(r.choice(CONTENT) for _ in range(r.choice([0, 1, 1, 2, 3]))).hex()
    elif kind == 'ident':
        arg = '%02x' % r.choice(STRUCT + [0x3f, 0xbf, 0x9f, 0x23, 0x2c, 0x0c, 0x09, 0x06, 0x03, 0x01, 0x0a, 0x17, 0x18, 0x1e, 0x1c])
        if int(arg, 16) & 0x1f == 0x1f:
            arg += '%02x' % r.choice([0x01, 0x1f, 0x7f])
    elif kind == 'zero-child':
        arg = '%02x' % r.choice([0x03, 0x04, 0x04, 0x0c, 0x02, 0x05, 0x24, 0x23, 0x30])
    elif kind == 'nest':
        arg = '%02x' % r.choice([0x30, 0x31, 0xa0, 0xa1, 0x24, 0x23, 0x2c])
    elif kind == 'bloat':
        arg = '%02x:%d' % (r.choice([0x7f, 0xff, 0x80, 0x01, 0x31]), r.choice([300, 1786, 2000, 5000]))
    elif kind == 'longtag':
        arg = '%02x:%d' % (r.choice([0xff, 0x81, 0x80]), r.choice([9, 100, 2041, 3000]))
    elif kind == 'fragment':
        arg = '%s:%s:%s' % (r.choice(['-', '-', '-', '04', '03', '24']), r.choice('di'),
                            r.choice(['half', 'half', 'empty-first', 'empty-last', 'single', 'three', 'none']))
    return ['tree', kind, idx, arg]


def gen_ops(r, b, nodes=None, max_ops=3, p_tree=0.3):
    """Seeded corruption plan for encoding b.  nodes: list of framing nodes
    (start, tag_end, hdr_end, end) to aim structural faults at."""
    ops = []
    n = max(1, len(b))
    if nodes and r.random() < p_tree:
        # grammar-aware damage first (it needs framed input), optionally followed by byte damage
        for _ in range(r.choice([1, 1, 2])):
            ops.append(gen_tree_op(r, nodes))
        if r.random() < 0.6:
            return ops
    for _ in range(r.choice([1, 1, 1, 2, 3][:max(1, max_ops + 2)])):
        x = r.random()
        node = r.choice(nodes) if nodes else None
        if x < 0.25:
            ops.append(['flip', r.randrange(n), r.randrange(8)])
        elif x < 0.36:
            pos = r.randrange(n)
            if node is not None and r.random() < 0.6:
                pos = r.choice([node[0], node[1], max(node[0], node[2] - 1)])
            ops.append(['set', pos, r.choice(STRUCT)])
        elif x < 0.45:
            # the first content octets of an element carry structure of their own (REAL forms,
            # BIT STRING pad count, OID continuation, sign): aim at them
            pos = r.randrange(n)
            if node is not None:
                pos = node[2] + r.choice([0, 0, 1, 2])
            ops.append(['set', pos, r.choice(CONTENT)])
        elif x < 0.55:
            ops.append(['ins', r.randrange(n + 1) if n else 0,
                        bytes(r.choice(STRUCT) for _ in range(r.choice([1, 1, 2, 4]))).hex()])
        elif x < 0.65:
            ops.append(['del', r.randrange(n), r.choice([1, 1, 2, 5])])
        elif x < 0.75 and node is not None:
            ops.append(['dup', node[0], node[3] - node[0]])
        elif x < 0.9 and node is not None:
            # rewrite the length field of a TLV
            old = node[2] - node[1]
            true_len = node[3] - node[2]
            choice = r.choice(['zero', 'indef', 'plus1', 'minus1', 'huge', 'long-form', 'absurd'])
            if choice == 'zero':
                new = '00'
            elif choice == 'indef':
                new = '80'
            elif choice == 'plus1':
                new = _enc_len(true_len + 1)
            elif choice == 'minus1':
                new = _enc_len(max(0, true_len - 1))
            elif choice == 'huge':
                new = '84ffffffff'
            elif choice == 'long-form':
                new = '8200' + ('%02x' % (true_len & 0xff))
            else:
                new = '89' + 'ff' * 9
            ops.append(['len', node[1], new, old])
        elif node is not None:
            ops.append(['set', node[0], r.choice(STRUCT + [0x3f, 0xbf, 0x9f, 0x23, 0x2c, 0x0c, 0x09, 0x06, 0x03, 0x01])])
        else:
            ops.append(['trunc', r.randrange(n)])
    if r.random() < 0.1:
        ops.append(['trunc', r.randrange(n)])
    return ops


def _enc_len(n):
    if n < 0x80:
        return '%02x' % n
    body = n.to_bytes((n.bit_length() + 7) // 8, 'big')
    return ('%02x' % (0x80 | len(body))) + body.hex()


def nodes_of(b):
    from simkit import tlv
    out = []
    pos = 0
    while pos < len(b):
        try:
            n = tlv.scan(b, pos)
        except (tlv.ScanError, RecursionError):
            break
        for x in tlv.walk(n):
            out.append((x.start, x.tag_end, x.hdr_end, x.end))
        pos = n.end
    return out
