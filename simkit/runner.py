"""Batch runner: seeded parallel search, known-finding classification,
minimisation, replay files, evidence (DESIGN.md sections 1, 4, 6).

A check module provides:
  ID, LEVEL, RULE, ASSUMPTIONS, REAL, STUB, TIERS = {'quick': n, 'thorough': n}
  gen_plan(r, index, tier) -> plan (JSON)            uses the PRNG
  execute(plan) -> result dict                        PRNG-free, clock-free
  systematic(tier) -> iterable of plans               optional, deterministic extras
  shrink_candidates(plan) -> iterable of plans        optional
Result dict: status in ok|violation|skip; for violations 'invariant', 'detail',
'sig' (list: the violation signature); always 'counters' (dict name->int),
'nontrivial' (bool), 'digest' (hex of the event trace), 'sites' (list of str).
"""
import concurrent.futures
import faulthandler
import gc
import json
import multiprocessing
import os
import signal
import sys
import time
import traceback

from simkit import boot, plan as P, rng, findings

MAX_REPORTED = int(os.environ.get("VERIF_MAX_REPORTED", "6"))
SHRINK_BUDGET = 400


class HarnessTimeout(Exception):
    pass


def _alarm(signum, frame):
    raise HarnessTimeout()


def tier():
    t = os.environ.get('VERIF_TIER', '').strip() or 'quick'
    return t if t in ('quick', 'thorough') else 'quick'


def workers():
    try:
        return max(1, int(os.environ.get('VERIF_WORKERS', '') or min(16, os.cpu_count() or 1)))
    except ValueError:
        return 16


def safe_execute(mod, pl, timeout_s=300):
    """Run one plan with the real-time backstop.  Harness exceptions propagate."""
    old = signal.signal(signal.SIGALRM, _alarm)
    if isinstance(pl, dict) and pl.get('timeout_s'):
        timeout_s = max(timeout_s, int(pl['timeout_s']))     # aggregated plans (sweeps) are many runs in one
    signal.alarm(timeout_s)
    # The cyclic collector runs at allocation-count thresholds that depend on what the
    # process did before; finalising a leftover suspended decoder generator in the
    # middle of a run would execute pyasn1 lines at an arbitrary point (and, under the
    # thread scheduler, count as scheduling steps).  Collect between runs only.
    gc.disable()
    try:
        return mod.execute(pl)
    finally:
        signal.alarm(0)
        signal.signal(signal.SIGALRM, old)
        gc.collect()


def _merge_counters(dst, src):
    for k, v in src.items():
        dst[k] = dst.get(k, 0) + v


_KF = [None]


def _kf():
    if _KF[0] is None:
        _KF[0] = findings.load()
    return _KF[0]


def _chunk_worker(args):
    modname, seed, lo, hi, tr, systematic_plans = args
    faulthandler.enable()
    mod = sys.modules[modname]
    out = {'n': 0, 'evals': 0, 'ok': 0, 'skip': 0, 'viol': [], 'known': {}, 'viol_dropped': 0, 'counters': {}, 'digests': [],
           'sites': set(), 'skips': {}, 'samples': [], 'harness': None, 'events': 0,
           'all_digest': []}
    plans = []
    if systematic_plans is not None:
        plans = [(None, p) for p in systematic_plans]
    else:
        for i in range(lo, hi):
            plans.append((i, None))
    for i, pl in plans:
        try:
            if pl is None:
                pl = mod.gen_plan(rng.rng_for(mod.ID, seed, i), i, tr)
                pl['index'] = i
            res = safe_execute(mod, pl)
        except HarnessTimeout:
            out['harness'] = 'HARNESS-TIMEOUT index=%s plan=%s' % (i, P.short(pl))
            out['harness_plan'] = pl
            break
        except ValueError as e:
            if 'integer string conversion' not in str(e):
                out['harness'] = 'HARNESS-ERROR index=%s\n%s' % (i, traceback.format_exc())
                out['harness_plan'] = pl
                break
            # CPython refused to print a very long int somewhere in harness formatting: the run is dropped and
            # counted, it is neither a verdict nor a reason to abort the batch
            res = {'status': 'skip', 'reason': 'harness-unprintable-int', 'counters': {}, 'nontrivial': False,
                   'digest': '', 'sites': [], 'events': 0}
        except Exception:
            out['harness'] = 'HARNESS-ERROR index=%s\n%s' % (i, traceback.format_exc())
            out['harness_plan'] = pl
            break
        out['n'] += 1
        out['evals'] += res.get('evals', 1)
        _merge_counters(out['counters'], res.get('counters', {}))
        out['events'] += res.get('events', 0)
        out['all_digest'].append(res.get('digest', '')[:8])
        for s in res.get('sites', ()):
            out['sites'].add(s)
        st = res['status']
        if st == 'skip':
            out['skip'] += 1
            r_ = res.get('reason', '?')
            out['skips'][r_] = out['skips'].get(r_, 0) + 1
        elif st == 'violation':
            v = {'plan': pl, 'invariant': res['invariant'], 'detail': res.get('detail', {}), 'sig': res['sig']}
            # classify against the open findings here, in the worker: it needs re-executions
            fid = _kf().classify(mod, v)
            if fid is not None:
                out['known'][fid] = out['known'].get(fid, 0) + 1
            elif len(out['viol']) < 40:
                out['viol'].append(v)
            else:
                out['viol_dropped'] += 1
            if res.get('nontrivial'):
                out['digests'].append((P.digest(pl)[:16], res.get('weight', 1)))
        else:
            out['ok'] += 1
            if res.get('nontrivial'):
                out['digests'].append((P.digest(pl)[:16], res.get('weight', 1)))
            if len(out['samples']) < 1 and res.get('nontrivial'):
                out['samples'].append(pl)
    out['sites'] = sorted(out['sites'])
    return out


def run_batch(mod, seed, tr, n_runs, budget_s):
    """Returns merged summary.  Results are merged in run-index order so that the
    outcome does not depend on the worker count."""
    t0 = time.time()
    nw = workers()
    chunk = max(1, min(200, n_runs // (nw * 4) or 1))
    sys_jobs = []
    if hasattr(mod, 'systematic'):
        sysplans = list(mod.systematic(tr))
        step = getattr(mod, 'SYSTEMATIC_CHUNK', 50)
        for k in range(0, len(sysplans), step):
            sys_jobs.append((mod.__name__, seed, 0, 0, tr, sysplans[k:k + step]))
    seeded_jobs = []
    for lo in range(0, n_runs, chunk):
        seeded_jobs.append((mod.__name__, seed, lo, min(n_runs, lo + chunk), tr, None))
    # the exhaustive parts and the seeded search share the wall-clock budget: interleave them (a fixed,
    # seed-independent pattern) so that a truncated batch has done its share of both
    jobs = []
    ratio = max(1, len(seeded_jobs) // max(1, len(sys_jobs)))
    si = 0
    for j, job in enumerate(seeded_jobs):
        if j % ratio == 0 and si < len(sys_jobs):
            jobs.append(sys_jobs[si])
            si += 1
        jobs.append(job)
    jobs.extend(sys_jobs[si:])
    merged = {'n': 0, 'evals': 0, 'ok': 0, 'skip': 0, 'viol': [], 'known': {}, 'viol_dropped': 0, 'counters': {}, 'digests': {},
              'sites': set(), 'skips': {}, 'samples': [], 'harness': None, 'events': 0,
              'truncated': False, 'all_digest': []}
    ctx = multiprocessing.get_context('fork')
    results = [None] * len(jobs)
    if nw == 1:
        for j, job in enumerate(jobs):
            if time.time() - t0 > budget_s:
                merged['truncated'] = True
                break
            results[j] = _chunk_worker(job)
    else:
        with concurrent.futures.ProcessPoolExecutor(max_workers=nw, mp_context=ctx) as ex:
            pending = {}
            it = iter(enumerate(jobs))
            exhausted = False
            while True:
                while not exhausted and len(pending) < nw * 2:
                    if time.time() - t0 > budget_s:
                        merged['truncated'] = True
                        exhausted = True
                        break
                    try:
                        j, job = next(it)
                    except StopIteration:
                        exhausted = True
                        break
                    pending[ex.submit(_chunk_worker, job)] = j
                if not pending:
                    break
                done, _ = concurrent.futures.wait(
                    list(pending), timeout=600, return_when=concurrent.futures.FIRST_COMPLETED)
                if not done:
                    merged['harness'] = 'HARNESS-TIMEOUT worker pool stalled'
                    for f in pending:
                        f.cancel()
                    break
                for f in done:
                    j = pending.pop(f)
                    try:
                        results[j] = f.result()
                    except Exception:
                        merged['harness'] = 'HARNESS-ERROR worker died\n' + traceback.format_exc()
                if merged['harness']:
                    break
    # merge in a canonical order that does not depend on how the work was cut into jobs: the exhaustive
    # parts first, then the seeded runs by index
    order = [j for j, job in enumerate(jobs) if job[5] is not None] + [j for j, job in enumerate(jobs) if job[5] is None]
    for res in [results[j] for j in order]:
        if res is None:
            continue
        merged['n'] += res['n']
        merged['evals'] += res['evals']
        merged['ok'] += res['ok']
        merged['skip'] += res['skip']
        merged['viol'].extend(res['viol'])
        _merge_counters(merged['known'], res['known'])
        merged['viol_dropped'] += res['viol_dropped']
        _merge_counters(merged['counters'], res['counters'])
        _merge_counters(merged['skips'], res['skips'])
        for dg, wt in res['digests']:
            merged['digests'][dg] = wt
        merged['sites'].update(res['sites'])
        merged['events'] += res['events']
        merged['all_digest'].extend(res['all_digest'])
        if len(merged['samples']) < 3:
            merged['samples'].extend(res['samples'][:1])
        if res['harness'] and not merged['harness']:
            merged['harness'] = res['harness']
            merged['harness_plan'] = res.get('harness_plan')
    merged['wall_s'] = time.time() - t0
    return merged


# ---------------------------------------------------------------------------
# minimisation

def same_failure(mod, pl, sig):
    try:
        res = safe_execute(mod, pl, timeout_s=30)
    except Exception:
        return None
    if res['status'] == 'violation' and res['sig'] == sig:
        return res
    return None


def shrink(mod, pl, sig, detail=None, budget=SHRINK_BUDGET):
    if not hasattr(mod, 'shrink_candidates'):
        return pl, 0
    wants_detail = mod.shrink_candidates.__code__.co_argcount >= 2
    used = 0
    improved = True
    cur = pl
    while improved and used < budget:
        improved = False
        cands = mod.shrink_candidates(cur, detail) if wants_detail else mod.shrink_candidates(cur)
        for cand in cands:
            if used >= budget:
                break
            used += 1
            res = same_failure(mod, cand, sig)
            if res is not None:
                cur = cand
                detail = res.get('detail', detail)
                improved = True
                break
    return cur, used


# ---------------------------------------------------------------------------
# reporting

def write_replay(mod, pl, viol, minimized_from=None):
    d = os.path.join(boot.VERIF_DIR, 'replays')
    os.makedirs(d, exist_ok=True)
    doc = {'property': mod.ID, 'plan': pl, 'expect': {'invariant': viol['invariant'], 'sig': viol['sig']},
           'detail': viol.get('detail', {})}
    if minimized_from is not None:
        doc['minimized_from'] = minimized_from
    path = os.path.join(d, '%s-%s.json' % (mod.ID, P.short(pl)))
    with open(path, 'w') as f:
        json.dump(doc, f, indent=1, sort_keys=True, default=str)
    return path


def evidence_dir():
    """Evidence under /verif/evidence describes runs against /repo only: a run against another tree
    (VERIF_REPO, used by the self-tests) writes its evidence elsewhere."""
    d = os.environ.get('VERIF_EVIDENCE_DIR')
    if d:
        return d
    if boot.repo_dir() != '/repo':
        return os.path.join(boot.VERIF_DIR, 'replays', 'evidence-other-tree')
    return os.path.join(boot.VERIF_DIR, 'evidence')


def write_evidence(mod, tr, seed, merged, violations, known_counts, extra=None):
    d = evidence_dir()
    os.makedirs(d, exist_ok=True)
    wall = merged.get('wall_s', 0.0)
    cov = {
        'evaluations': merged['evals'],
        'plans_executed': merged['n'],
        'distinct_nontrivial': sum(merged['digests'].values()),
        'rule': mod.RULE,
        'samples': merged['samples'][:3] or [{'note': 'no non-trivial sample recorded'}],
        'runs_per_hour': int(merged['n'] / wall * 3600) if wall > 0 else 0,
        'sim_events': merged['events'],
        'counters': dict(sorted(merged['counters'].items())),
        'suspension_sites_distinct': len(merged['sites']),
        'skipped': dict(sorted(merged['skips'].items())),
        'skipped_total': merged['skip'],
        'ok_runs': merged['ok'],
        'known_findings': known_counts,
        'truncated_by_budget': merged['truncated'],
        'real_components': mod.REAL,
        'stub_components': mod.STUB,
        'batch_digest': P.digest(merged['all_digest'])[:16],
        'distinct_event_traces': len(set(merged['all_digest'])),
        'workers': workers(),
    }
    zero = sorted(k for k, v in cov['counters'].items() if k.startswith('probe.') and v == 0)
    if zero:
        cov['probes_at_zero'] = zero
    if extra:
        cov.update(extra)
    doc = {'property_id': mod.ID, 'tier': tr, 'seed': seed, 'level': mod.LEVEL, 'coverage': cov,
           'assumptions': mod.ASSUMPTIONS, 'wall_s': round(wall, 3), 'violations': violations}
    path = os.path.join(d, '%s.json' % mod.ID)
    tmp = path + '.tmp'
    with open(tmp, 'w') as f:
        json.dump(doc, f, indent=1, sort_keys=True, default=str)
    os.replace(tmp, path)
    return path


def run_check(mod):
    """Entry point used by ./check.  Returns the process exit code."""
    tr = tier()
    seed = rng.verif_seed()
    n_runs = int(os.environ.get('VERIF_RUNS', '') or mod.TIERS[tr])
    budget = float(os.environ.get('VERIF_BUDGET_S', '') or (mod.BUDGET[tr] if hasattr(mod, 'BUDGET') else (120 if tr == 'quick' else 1500)))
    print('check=%s tier=%s VERIF_SEED=%d runs=%d workers=%d repo=%s' % (
        mod.ID, tr, seed, n_runs, workers(), boot.repo_dir()))
    sys.stdout.flush()
    kf = findings.load()
    # 1. replay committed replays of open findings of this property
    known_counts = {}
    for f in kf.open_for(mod.ID):
        status = findings.replay_finding(mod, f)
        if status == 'fails':
            print('KNOWN-FINDING: property=%s %s %s' % (mod.ID, f['id'], f['what']))
        elif status == 'passes':
            print('KNOWN-FINDING-STALE: property=%s %s no longer reproduces' % (mod.ID, f['id']))
        known_counts[f['id']] = 0
    try:
        merged = run_batch(mod, seed, tr, n_runs, budget)
    finally:
        if hasattr(mod, 'teardown'):
            mod.teardown()
    if merged['harness']:
        print(merged['harness'])
        if merged.get('harness_plan') is not None:
            path = os.path.join(boot.VERIF_DIR, 'replays', '%s-harness.json' % mod.ID)
            os.makedirs(os.path.dirname(path), exist_ok=True)
            with open(path, 'w') as f:
                json.dump({'property': mod.ID, 'plan': merged['harness_plan']}, f, indent=1, default=str)
            print('harness plan saved to %s' % path)
        return 2
    # 2. classify violations
    unknown = {}
    for fid, c in merged['known'].items():
        known_counts[fid] = known_counts.get(fid, 0) + c
    for v in merged['viol']:          # already classified as unknown by the workers
        key = json.dumps(v['sig'], sort_keys=True)
        unknown.setdefault(key, []).append(v)
    n_viol = sum(len(x) for x in unknown.values()) + merged['viol_dropped']
    lines = []
    for key in sorted(unknown):
        print('signature %s x%d' % (key, len(unknown[key])))
    for key in sorted(unknown)[:MAX_REPORTED]:
        v = min(unknown[key], key=lambda x: len(P.canon(x['plan'])))
        small, used = shrink(mod, v['plan'], v['sig'], v.get('detail'))
        res = safe_execute(mod, small)
        if res['status'] == 'violation':
            v2 = {'invariant': res['invariant'], 'sig': res['sig'], 'detail': res.get('detail', {})}
        else:   # cannot happen when execution is deterministic; keep the original
            small, v2 = v['plan'], v
        # A plan can hit two open findings at once, so that neither differential classifier
        # recognises it; the minimised plan (same violation signature) isolates one.  The group is
        # attributed to that finding only if EVERY member (at most 8) minimises into it.
        fid = kf.classify(mod, dict(v2, plan=small))
        if fid is not None and len(unknown[key]) <= 8:
            # every member is minimised and classified on its own: a member counts as known when ITS minimised
            # plan is recognised by some open finding; the group is reported only if a member stays unrecognised
            known_here = {fid: 1}
            stranger = None
            for other in unknown[key]:
                if other is v:
                    continue
                s2, _ = shrink(mod, other['plan'], other['sig'], other.get('detail'), budget=150)
                r2 = safe_execute(mod, s2)
                f2 = None
                if r2['status'] == 'violation':
                    f2 = kf.classify(mod, {'plan': s2, 'invariant': r2['invariant'], 'sig': r2['sig'],
                                           'detail': r2.get('detail', {})})
                if f2 is None:
                    stranger = (other, s2, r2)
                    break
                known_here[f2] = known_here.get(f2, 0) + 1
            if stranger is None:
                for f_, c_ in known_here.items():
                    known_counts[f_] = known_counts.get(f_, 0) + c_
                n_viol -= len(unknown[key])
                print('known-finding (after minimisation): %s sig=%s' % (json.dumps(known_here, sort_keys=True), key))
                continue
            other, s2, r2 = stranger
            if r2['status'] == 'violation':
                v, small = other, s2
                v2 = {'invariant': r2['invariant'], 'sig': r2['sig'], 'detail': r2.get('detail', {})}
        path = write_replay(mod, small, v2, minimized_from=P.short(v['plan']))
        lines.append('VIOLATION property=%s replay=%s' % (mod.ID, path))
        print('violation: %s x%d sig=%s shrink_execs=%d' % (v2['invariant'], len(unknown[key]), key, used))
    for fid, c in sorted(known_counts.items()):
        if c:
            print('known-finding hits: %s x%d' % (fid, c))
    path = write_evidence(mod, tr, seed, merged, n_viol, known_counts)
    print('runs=%d ok=%d skipped=%d violations=%d known=%d distinct_nontrivial=%d wall=%.1fs evidence=%s' % (
        merged['n'], merged['ok'], merged['skip'], n_viol, sum(known_counts.values()),
        sum(merged['digests'].values()), merged['wall_s'], path))
    if merged['skips']:
        print('skipped by reason: %s' % json.dumps(dict(sorted(merged['skips'].items()))))
    for ln in lines:
        print(ln)
    if len(unknown) > MAX_REPORTED:
        print('(%d more violation signatures not minimised)' % (len(unknown) - MAX_REPORTED))
    sys.stdout.flush()
    return 1 if lines else 0


def replay(mod, path):
    with open(path) as f:
        doc = json.load(f)
    pl = doc['plan']
    res = safe_execute(mod, pl)
    if res['status'] == 'violation':
        print('violation: %s sig=%s' % (res['invariant'], json.dumps(res['sig'], sort_keys=True)))
        print('detail: %s' % json.dumps(res.get('detail', {}), sort_keys=True, default=str)[:2000])
        fid = findings.load().classify(mod, {'plan': pl, 'invariant': res['invariant'], 'sig': res['sig'],
                                             'detail': res.get('detail', {})})
        if fid is not None and not os.environ.get('VERIF_REPLAY_RAW'):
            # on this tree the plan runs into an open known finding: reported as such, not as a violation
            print('KNOWN-FINDING: property=%s %s (replay of %s)' % (mod.ID, fid, os.path.basename(path)))
            return 0
        exp = doc.get('expect')
        if exp and exp.get('sig') != res['sig']:
            print('note: signature differs from the recorded one %s' % json.dumps(exp.get('sig')))
        print('VIOLATION property=%s replay=%s' % (mod.ID, path))
        return 1
    print('replay: status=%s %s' % (res['status'], res.get('reason', '')))
    return 0
