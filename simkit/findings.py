"""Known findings: data in known_findings.json (committed, never written at run
time), classifiers here (code).  A violation matching no classifier of an *open*
finding of the same property is reported as a VIOLATION.  `fixed` entries suppress
nothing."""
import json
import os

from simkit import boot

CLASSIFIERS = {}


def classifier(name):
    def deco(fn):
        CLASSIFIERS[name] = fn
        return fn
    return deco


class Findings(object):
    def __init__(self, doc):
        self.entries = doc.get('findings', [])

    def open_for(self, prop):
        return [f for f in self.entries
                if f.get('status') == 'open' and prop in f.get('properties', [])]

    def classify(self, mod, viol):
        for f in self.open_for(mod.ID):
            fn = CLASSIFIERS.get(f.get('signature'))
            if fn is None:
                continue
            try:
                if _call(fn, mod, viol['plan'], viol, f):
                    return f['id']
            except Exception:
                continue
        return None


def _call(fn, mod, plan, viol, entry):
    if fn.__code__.co_argcount >= 4:
        return fn(mod, plan, viol, entry)
    return fn(mod, plan, viol)


def load():
    path = os.path.join(boot.VERIF_DIR, 'known_findings.json')
    if not os.path.exists(path):
        return Findings({})
    with open(path) as f:
        return Findings(json.load(f))


def replay_finding(mod, f):
    rel = (f.get('replays') or {}).get(mod.ID)
    if not rel:
        return 'missing'
    path = os.path.join(boot.VERIF_DIR, rel)
    if not os.path.exists(path):
        return 'missing'
    with open(path) as fh:
        doc = json.load(fh)
    from simkit import runner
    res = runner.safe_execute(mod, doc['plan'])
    if res['status'] != 'violation':
        return 'passes'
    fn = CLASSIFIERS.get(f.get('signature'))
    v = {'plan': doc['plan'], 'invariant': res['invariant'], 'sig': res['sig'],
         'detail': res.get('detail', {})}
    if fn is not None and _call(fn, mod, doc['plan'], v, f):
        return 'fails'
    return 'passes'


# ---------------------------------------------------------------------------
# classifiers are registered by the modules that know the plan vocabulary
# (simkit/findings_defs.py imports this module and fills CLASSIFIERS)
