"""Interpreter hygiene (DESIGN.md section 1.6).

Every entry point calls ``boot.ensure()`` before importing pyasn1:
  * re-exec once with PYTHONHASHSEED=0 and PYTHONDONTWRITEBYTECODE=1 (nothing is
    ever written into /repo, and no hash-order dependence can leak into a run);
  * put ${VERIF_REPO:-/repo} first on sys.path and assert that the pyasn1 that
    gets imported is the one in that working tree, so a check always runs the
    *current* sources.
"""
import os
import sys

VERIF_DIR = os.path.dirname(os.path.dirname(os.path.abspath(__file__)))
GUARD = 'PYASN1_VERIF'


def repo_dir():
    return os.path.abspath(os.environ.get('VERIF_REPO', '/repo'))


def ensure():
    want = os.environ.get('VERIF_HASHSEED', '0')
    if os.environ.get('PYTHONHASHSEED') != want or \
            os.environ.get('PYTHONDONTWRITEBYTECODE') != '1':
        env = dict(os.environ)
        env['PYTHONHASHSEED'] = want
        env['PYTHONDONTWRITEBYTECODE'] = '1'
        env[GUARD] = '1'
        env['VERIF_MAIN_PID'] = str(os.getpid())
        os.execve(sys.executable, [sys.executable] + sys.argv, env)
    sys.dont_write_bytecode = True
    repo = repo_dir()
    if VERIF_DIR not in sys.path:
        sys.path.insert(0, VERIF_DIR)
    # the working tree must win over any installed copy
    sys.path[:] = [p for p in sys.path if os.path.abspath(p or '.') != repo]
    sys.path.insert(0, repo)
    for name in [m for m in sys.modules if m == 'pyasn1' or m.startswith('pyasn1.')]:
        del sys.modules[name]
    import pyasn1
    here = os.path.abspath(pyasn1.__file__)
    if not here.startswith(repo + os.sep):
        sys.stdout.write('HARNESS-ERROR pyasn1 imported from %s, not from %s\n' % (here, repo))
        sys.exit(2)
    return repo
